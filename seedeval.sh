#!/bin/bash
# usage: seedeval.sh <name> <seeddir> [property ...]
# Confirms a seeded change in a scratch worktree of /repo (applies, compiles, the pinned suite
# passes with it, the demonstration fails with it and passes without it), then runs the given
# checks (tier $TIER, default quick) against that worktree from a scratch copy of /verif
# (GOSYM_REPO=<worktree>), so /repo itself is never touched and several changes can be
# evaluated at once.  Removes the worktree and the copy afterwards.
set -u
NAME=$1; SD=$(realpath $2); shift 2
WT=/tmp/ev/$NAME; VC=/tmp/ev/$NAME.verif; LOG=/tmp/ev/$NAME.log
export GOFLAGS=-mod=mod GOPROXY=off
mkdir -p /tmp/ev
git -C /repo worktree remove --force $WT 2>/dev/null; rm -rf $WT $VC
git -C /repo worktree add -q --detach $WT ${BASE:-HEAD} || exit 2
cd $WT
DEMOREL=$(sed -n 1p $SD/demo_cmd.txt | tr -d ' \r`')
CMD=$(sed -n 2p $SD/demo_cmd.txt | tr -d '\r`')
{
echo "== $NAME demo=$DEMOREL cmd=$CMD"
if ! git apply $SD/patch.diff; then echo "RESULT $NAME PATCH-DOES-NOT-APPLY"; exit 2; fi
git diff --stat | tail -1
if ! go build ./... ; then echo "RESULT $NAME DOES-NOT-COMPILE"; exit 2; fi
if go test -vet=off -count=1 ./... > $LOG.suite 2>&1; then S=pass; else S=FAIL; grep -v "^ok\|no test files" $LOG.suite | head -5; fi
cp $SD/zz_demo_test.go $WT/$DEMOREL
if (cd $WT && eval "timeout 600 $CMD") > $LOG.demo1 2>&1; then D1=PASS-unexpected; else D1=fails; fi
git apply -R $SD/patch.diff
if (cd $WT && eval "timeout 600 $CMD") > $LOG.demo0 2>&1; then D0=passes; else D0=FAILS-unexpected; fi
rm -f $WT/$DEMOREL
git apply $SD/patch.diff
echo "CONFIRM $NAME suite=$S demo_with=$D1 demo_without=$D0"
# the checks come from /verif as committed (HEAD), built once per commit
SHA=$(git -C /verif rev-parse --short HEAD)
mkdir -p $VC && git -C /verif archive HEAD | tar -x -C $VC && mkdir -p $VC/bin $VC/evidence
(
  flock 9
  if [ ! -x /tmp/ev/bin-$SHA/gosym ]; then (cd $VC && ./setup.sh >/dev/null) && mkdir -p /tmp/ev/bin-$SHA && cp $VC/bin/gosym /tmp/ev/bin-$SHA/; fi
) 9>/tmp/ev/build.lock
cp /tmp/ev/bin-$SHA/gosym $VC/bin/
cd $VC
for p in "$@"; do
  s=$(date +%s)
  out=$(GOSYM_REPO=$WT ./check $p --tier ${TIER:-quick} --workers ${WORKERS:-8} ${EXTRA:-} 2>&1); rc=$?
  e=$(date +%s)
  echo "-- check $p rc=$rc $((e-s))s"; echo "$out" | grep "VIOLATION\|^  obligation\|INCONCLUSIVE\|^OK\|KNOWN" | cut -c1-400 | head -12
  if [ $rc -ne 0 ]; then echo "RESULT $NAME CAUGHT-BY $p"; fi
done
} > $LOG 2>&1
cd /tmp
git -C /repo worktree remove --force $WT; rm -rf $VC
grep "CONFIRM\|RESULT\|^-- check" $LOG
