#!/usr/bin/env python3
# Regenerates MANIFEST.json from the table below (kept in one place so that it stays valid).
import json, sys

TECH = "bounded symbolic execution of the real code: go/ssa of /repo's working tree interpreted over SMT terms, every branch and assertion decided by z3/cvc5 (single-byte conditions by an exact 256-value domain procedure), counterexamples replayed natively"

claimed = {
 "C03": dict(
   text="Bounded model checking of the whole query pipeline from statement text (real lexer, parser, semantic hooks, planner with its goroutines, memory driver): for 17 one- and two-clause SELECT shapes of the conjunctive fragment (constants, new and repeated bindings in every position, anchored predicates and anchor bindings, joins on one and two bindings, a product, an existence clause) and K<=2 (thorough 3) symbolic triples, the result table must contain exactly one row per satisfying assignment clause->stored triple, every row being a solution and every solution a row, the comparison being one fork-free solver obligation per row. Three planner/driver defects are reproduced natively as known findings.",
   note="Statement concrete, data symbolic over the small universe; canonical schedule (rows compared as a multiset); extraction keywords (ID/TYPE/AT/AS), global time bounds and several FROM graphs are not in the shape list yet.",
   ref="DESIGN.md §4 C03"),
 "C04": dict(
   text="Bounded model checking of data and graph statements through the whole pipeline: eleven statements (INSERT/DELETE into one and two graphs, CREATE, DROP, CONSTRUCT, DECONSTRUCT, CONSTRUCT with ';' reification, a CONSTRUCT into a missing graph, CREATE of an existing graph) against a store with two graphs of K symbolic triples each: afterwards the store lists exactly the expected graphs and every graph holds exactly its previous content plus/minus the listed or template-instantiated triples (reference solutions as in C03), each once; a reified template adds per solution row exactly _subject/_predicate/_object and the extra fact on one blank node; rejected statements change nothing.",
   note="K=1 quick, 2 thorough; immutable predicates only (the predicate-kind defect is C02/C03's); one statement per run (sequences are not covered yet).",
   ref="DESIGN.md §4 C04"),
 "C07": dict(
   text="Bounded model checking of concurrent use of the real memory driver: two goroutines with one operation each in six scenarios; the engine's scheduler enumerates every interleaving at synchronisation-operation granularity (at most 3 preemptions, 8 501 schedules in the quick tier) and a happens-before race detector (vector clocks over interpreted loads, stores and map operations) checks data-race freedom; on every schedule there is no panic or deadlock, a batch add is all-or-nothing for a concurrent listing, exactly one of two concurrent creates wins, every lookup closes its channel. The race on a shared LookupOptions with LatestAnchor is found, confirmed natively under the Go race detector and reported as a known finding.",
   note="Two goroutines, one operation each, concrete data; the schedule is the quantified dimension (no SMT query is needed for it); linearizability is checked through scenario-specific atomicity obligations, not a general history checker.",
   ref="DESIGN.md §4 C07"),
 "C08": dict(
   text="Bounded model checking of crash/hang/leak freedom of the whole pipeline: (stage 2) ten statement templates with a hole of up to 2 (thorough 3) symbolic bytes in a token position - whatever the lexer makes of the hole; (stage 3) every token-type sequence up to 6 (thorough 9) tokens decided by the parser, rendered with sample texts; and a corpus of 16 awkward well-formed statements; each executed against an empty and a populated store with the lexer goroutine, the update() writers and the planner's workers running as engine coroutines: no panic in any goroutine, a table or an error is returned, the call returns (no deadlock) and no goroutine started for it is left. Found and repaired: SUM over an empty result panicked (8e5b5b6), negative LIMIT (627d3e6). Known finding: the lexer goroutine left blocked after a parse error.",
   note="Stage 1 (bytes to tokens) is C16; canonical schedule; holes longer than N and texts outside the sample pool are outside the claim.",
   ref="DESIGN.md §4 C08"),
 "C14": dict(
   text="Bounded model checking of metamorphic relations on the real pipeline: for ten SELECT shapes over K symbolic triples the multiset of result rows (compared fork-free as printed rows) is unchanged by a consistent renaming of the bindings, by chanSize/bulkSize, by repeated execution, by swapping the two clauses, and by partitioning the data over two FROM graphs; adding a triple never removes a row.",
   note="K=1 quick, 2 thorough; GOMAXPROCS and real scheduling are not modelled; ORDER BY determinism under map iteration order is not covered yet.",
   ref="DESIGN.md §4 C14"),
 "C20": dict(
   text="Bounded model checking of failure propagation: a fault-injecting storage.Store/Graph wrapper (pure interface implementation in the harness) lets every driver call fail - before delivering anything, after the first element, or on write - under solver-controlled fault variables, at most 1 (thorough 2) faults per execution; for 17 statements (every simpleFetch branch, joins, INSERT, DELETE, CONSTRUCT, DECONSTRUCT, SHOW, CREATE, DROP) and bulk sizes 1 and 2: if any fault fired Execute returns an error, it always returns (no deadlock), and no goroutine is left. Found and repaired: SHOW GRAPHS returned (nil,nil) on a failing driver (bb988ef). Known findings: CONSTRUCT/DECONSTRUCT drop write errors.",
   note="Canonical schedule of the engine's coroutines (the design's schedule mode for this property is not enabled yet); concrete data.",
   ref="DESIGN.md §4 C20"),
 "C10": dict(
   text="Bounded model checking of the real left-join kernel Table.LeftOptionalJoin (the operation OPTIONAL is planned onto) on two symbolic tables of up to 2 (thorough 3) rows sharing 0, 1 or 2 bindings: every left row appears once per agreeing right row or exactly once NULL-extended, and nothing else appears; which rows agree is decided by the solver. This check found and led to the repair of a genuine defect (an optional clause with disjoint bindings and no match removed every row, commit 57d2ef2); the mixed-kind join column defect is a known finding.",
   note="Kernel level (exported table API); join cells are one symbolic byte over {a,b}; the planner-level OPTIONAL paths (processClause/addSpecifiedData/tripleToRow) are claimed only where end-to-end harnesses are registered in the evidence.",
   ref="DESIGN.md §4 C10"),
 "C11": dict(
   text="Bounded model checking of the real grouping kernel Table.Reduce (sort by group key, reduce contiguous ranges) with count, count distinct and int64 sum accumulators on up to 3 (thorough 4) symbolic rows: one output row per distinct grouping value, with count, distinct count and sum equal to the reference computed fork-free over the same symbolic cells; sort.Sort is interpreted from its source. With several cell kinds mixed in the grouping column the known group-split defect is reproduced.",
   note="Kernel level; grouping cells one symbolic byte over {a,b}, summed values symbolic in [-3,3]; float sums and the empty-pattern case are end-to-end obligations, claimed only when registered.",
   ref="DESIGN.md §4 C11"),
 "C12": dict(
   text="Bounded model checking of ORDER BY / LIMIT kernels on the real code: Table.Sort on two int64 cells symbolic over the full 64-bit range must order numerically (through Literal.ToComparableString's %032d, modelled with witness digits and decided by cvc5 bv-as-int) - positives and mixed signs are proved, two negatives are the known finding; time cells from a pool must order chronologically (two known findings); Sort on up to 3-4 symbolic rows with one or two keys in every direction is a permutation with adjacent rows ordered; Table.Limit(i) for every i >= 0 keeps the first min(i,N) rows; the LIMIT clause through the real lexer, parser and hook accepts exactly non-negative int64 texts (this check found the negative-LIMIT panic, repaired in 627d3e6).",
   note="Kernel and clause level; the interplay with the planner pipeline (limit push-down) is claimed only when end-to-end harnesses are registered; float and time keys from concrete pools.",
   ref="DESIGN.md §4 C12"),
 "C13": dict(
   text="Bounded model checking of the real HAVING evaluators: int64 cell symbolic over the full range against int64 constants (numeric order; two negatives are the known finding), text and extracted-string cells against text constants of up to 2-3 symbolic bytes (lexicographic; one known finding caused by the closing quote), every cell kind against a constant of another kind (never true), time cells against time constants (instants), and six NOT/AND/OR shapes over two symbolic leaves (truth-functional).",
   note="Evaluator level (exported semantic API); the grammar-derived expression structure and the planner's filtering step are claimed only when registered in the evidence.",
   ref="DESIGN.md §4 C13"),
 "C17": dict(
   text="The grammar tables are finite and are covered completely: for every rule and every pair of alternatives of grammar.BQL() (rule and alternative indices are solver variables, concretized exhaustively) the first elements are tokens and differ, at most one alternative is empty and it is last, every referenced symbol exists, the rule is reachable from START and derives a finite statement, and SemanticBQL() has the same rules, alternatives and elements. For each of the 178 alternatives a witness statement is derived from the tables and run, inside the engine and natively, through the real lexer and parser on a private copy of BQL() with ProcessStart probes: it is accepted taking that alternative.",
   note="Exhaustive over the tables (exhaustive=true in evidence); witness texts use one sample text per token type.",
   ref="DESIGN.md §4 C17"),
 "C18": dict(
   text="Bounded model checking of the real parser with token types as solver variables (injected through an overlay shim, nothing is written to /repo): for every rule re-rooted as START and every token-type sequence up to L (quick 4, the real START 8; thorough 6/11) the parser and a reference predictive recogniser over the same Grammar value agree on accept/reject and on the number of tokens consumed; START accepts only whole inputs (known finding: tokens after ';' are ignored); the semantic layer accepts no more than the plain grammar; and a parser reused after any accepted or rejected statement extracts from each of nine corpus statements exactly what a fresh parser does (known finding: state left by a rejected INSERT/DELETE).",
   note="Token texts are fixed samples per type; the second statement comes from a concrete corpus; LL(1) look-ahead.",
   ref="DESIGN.md §4 C18"),
 "C19": dict(
   text="Bounded model checking of the real memoization layer in lock-step with a plain memory store: every history of H (quick 2 after a warming pre-history, thorough 3) operations - add, remove, Triples, TriplesForSubject, Objects, Exist - through one of two handles of the same graph, reads carrying symbolic MaxElements and Offset in [0,3] (cache-key coincidences are decided by the solver through LookupOptions.String/UUID): every read must return the same sequence as the plain store at that moment. The two design defects (Offset missing from the key; other handles not invalidated) are reproduced natively and reported as known findings.",
   note="Sequential histories only (the interleaving part of the property needs schedule mode and is not claimed yet); data is a concrete pool of three triples.",
   ref="DESIGN.md §4 C19"),
 "C01": dict(
   text="Bounded model checking of the real memory driver: (A) every history of up to H=3 (thorough 4) NewGraph/Graph/DeleteGraph/GraphNames operations with symbolic names against a reference name list; (B) one graph whose pre-state is built by the real code from Add(b1);Remove(b2), then one arbitrary Add or Remove and interference on a second graph: Exist and the full listing must equal the reference set semantics (component-wise triple identity, each triple once, other graph invisible) for every stored and one fresh symbolic probe triple; (C) drop + re-create starts empty. Triple components are solver variables over a small universe, so which triples coincide is decided by the solver, not sampled.",
   note="Universe {a,b} per component byte; batches of <= 1 (pre-state <= 2 thorough); SHA-1 injective; canonical schedule (single goroutine).",
   ref="DESIGN.md §4 C01"),
 "C02": dict(
   text="Bounded model checking of all ten indexed lookup methods of the memory driver against a scan: pre-state Add(b1);Remove(b2) with symbolic triples (immutable and temporal predicates sharing identifiers, two spellings of one instant), lookup arguments fresh symbolic components; every delivered element must derive from a stored triple whose fixed components equal the arguments (identifier, kind and instant for predicates), each stored triple at most once, and every stored matching triple must be delivered. The driver's missing predicate-kind comparison is reproduced and reported as a known finding.",
   note="Bounds: pre-state <= 1 triple + 1 removal per method in quick, <= 2 + 1 in thorough; default lookup options; results identified by pointer identity of the stored components.",
   ref="DESIGN.md §4 C02"),
 "C09": dict(
   text="Bounded model checking of lookup options on the real driver: for lookup methods Objects, TriplesForPredicate, TriplesForSubjectAndPredicate (all ten in thorough), every combination of lower/upper window bound from the anchor pool (incl. equal to an anchor, lower>upper), no filter / LatestAnchor / {latest,isImmutable,isTemporal} x {predicate,object} field, and every (MaxElements, Offset) in [0,3]^2: the unpaged result must be exactly the default-options result filtered by the definition (closed window keeping immutables, filter by kind, latest per identifier), the paged result the k-th block of the unpaged sequence, and the options value unchanged. A second harness makes MaxElements and Offset symbolic over (0,2^32) and finds the int overflow of their product. Two known findings.",
   note="Assume-guarantee with C02 (reference = post-processed default-options lookup); anchors from a concrete pool; pre-state 1-2 triples (2-3 thorough).",
   ref="DESIGN.md §4 C09"),
 "C05": dict(
   text="Bounded model checking of print/parse round trips on the real code: nodes (type/id up to L symbolic bytes in the documented domain), predicates (ids of up to L arbitrary non-whitespace bytes incl. quotes, backslashes, brackets, non-ASCII; immutable or anchored at pool instants in two zones with nanoseconds), literals (bool, text, blob, float64 pool; int64 over the full 64-bit range via witness-digit formatting and the interpreted strconv.ParseInt, decided by cvc5 bv-as-int; text long enough to contain the type delimiter) and triples through triple.Parse (regexp package interpreted): parse(print(v)) must succeed, equal v component-wise and re-print identically. Two delimiter-collision defects are known findings.",
   note="Bounds L=2-3 quick, 3-4 thorough; float64 values and anchors from concrete pools (native formatting); the graph-level WriteGraph/ReadIntoGraph round trip is covered for small graphs by HarnessC05Graph when registered.",
   ref="DESIGN.md §4 C05"),
 "C06": dict(
   text="Bounded model checking of the real UUID encoders with SHA-1 abstracted as an injective function: for two symbolic nodes (type/id up to L bytes each, documented domain), literals (all 25 kind pairs; bool, full-range int64, float64 from a pool of 15, text/blob up to L bytes; plus text of 4-5 bytes against bool), predicates (immutable/temporal, symbolic nanoseconds, three zones) and triples over a mixed object pool, the solver decides UUID(a)=UUID(b) <=> a and b are the same value, Triple.Equal likewise, that UUID() never panics for any int64, and that a second call (also with a dirty pooled buffer) returns the same bytes. Known findings (no separator between node type and id; no literal type tag) are reproduced natively and reported as KNOWN-FINDING; anything else is a violation.",
   note="SHA-1 collisions are assumed away (uninterpreted injective functions / real SHA-1 on concrete input); bounds L=2 quick, 3 thorough; temporal seconds from a pool of three; float64 from a pool.",
   ref="DESIGN.md §4 C06"),
 "C16": dict(
   text="Bounded model checking of the real lexer including its goroutine and channel: for every input of up to N bytes (quick: N=3 over 7-bit bytes and N=2 over all 256 values; thorough N=4 / N=3) and channel capacities 0, 1, N+1 the lexer terminates, closes the channel (otherwise the engine reports the deadlock), emits texts that are ordered non-overlapping substrings and exactly one final EOF-or-error token; every keyword and literal type name under a symbolic per-letter case mask lexes to the same token; two valid words separated by any of five whitespace strings give the same tokens; printed forms of nodes, predicates, bounds, bindings, blank nodes and literals with symbolic content are one token with exactly that text. Four lexer/printer escape mismatches are known findings.",
   note="Bounds as stated; unicode classification of symbolic runes is summarised exactly from the Go tables; the cooperative scheduler runs one canonical schedule here (the lexer protocol is single-producer/single-consumer); anchors from a concrete pool.",
   ref="DESIGN.md §4 C16"),
 "C15": dict(
   text="Bounded model checking of the real parsers: node.Parse, predicate.Parse, literal (unbound and bounded builder) Parse and triple.ParseObject are executed symbolically on every string of length <= N over all 256 byte values (quick N=4, thorough N=6; literal type templates with a symbolic value hole), asserting no panic, never (nil,nil), well-formed result, and that an accepted node/immutable predicate/non-float literal re-prints to text that parses back to an equal value. Within the bound the verdict covers all 256^N inputs, which the dozen strings per Parse in the test suite cannot.",
   note="Bounds as stated; float literals and temporal anchors are accepted but not re-printed (symbolic float/time formatting is outside the encoding); triple.Parse and io.ReadIntoGraph are covered by C05's harnesses on valid templates only; engine intrinsics trusted, spot-checked natively.",
   ref="DESIGN.md §4 C15"),
}

# Second session: what was added to each check (appended to the texts above), and notes that replace outdated ones.
added = {
 "C01": " A failed create of an existing name leaves the populated graph in place (handle obtained afterwards sees the triples, the original handle still writes to the same graph). (B') Triples that share subject, predicate identifier and object and differ at most in the predicate's kind or instant (immutable, an instant, one nanosecond later, the same instant in another zone) are added in one batch and removed by batches of one to three: Exist and the listing must treat them as different triples exactly when kind or instant differ.",
 "C02": " The five lookups that fix the predicate draw their anchors from a pool that spells one instant in two zones, so 'same instant' is compared as instants.",
 "C03": " A second harness (32 shapes) covers the extraction keywords AS/ID/TYPE/AT on subject, predicate and object (including extraction that cannot apply: the triple does not match), predicate windows \"p\"@[T1,T2] with open sides, global BEFORE/AFTER/BETWEEN windows (immutable triples kept), two FROM graphs, existence tests with aliases, predicate-valued objects with anchor bindings and time joins between clauses. Found and repaired here: ID extraction on a literal object failed the whole query (194b8fb). Two more planner defects are known findings.",
 "C04": " Reification is also checked with two and three solution rows, including rows that differ only in a binding used after the ';' (one fresh blank node with its reification triples and extra fact per row).",
 "C05": " Printing is checked as a function of the value alone (two or three predicates, possibly at one instant in different zones, printed one after the other must each parse back with their own offset), and a triple whose text object consists of up to 3 (thorough 5) symbolic 7-bit bytes - brackets, quotes, slashes and blanks that look like the separators triple.Parse searches for - parses back to the same text. The graph-level round trip WriteGraph -> ReadIntoGraph is checked for up to K symbolic triples over the small universe and over single component bytes of the whole printable range (io.WriteGraph's formatting runs on symbolic text through the engine's fmt model).",
 "C06": " Anchors at large: two temporal predicates anchored at time.Unix(s, n) with s symbolic over 2^33 seconds starting in 1970 or at Go's zero time and n over 10^9 nanoseconds have the same UUID exactly when the instants are equal and never the UUID of the immutable predicate (decided by cvc5 bv-as-int). A concurrent harness runs two goroutines computing UUIDs of different nodes/predicates/literals/triples with sync.Pool's Get/Put as schedule points (a Put buffer may be handed to the other goroutine): on every schedule with up to 3 preemptions each result equals the UUID computed before.",
 "C07": " Scenario 8 calls every read method with default, paged and rejected (LatestAnchor together with FilterOptions) options: the result channel is closed on every return - an unclosed channel is a deadlock of the ranging consumer - and the options value is left untouched. Scenarios 6 and 7 run each of the twelve read methods of a graph against a batch add and against a removal (race freedom for every method, batch atomicity for the methods whose arguments the batch elements share).",
 "C08": " (stage 3') Eleven well-formed statement prefixes (SELECT with and without aggregates, inside the pattern, after HAVING / HAVING ( ?x / ORDER BY ?x / GROUP BY ?x / FILTER / OPTIONAL {, CONSTRUCT templates) are followed by every token tail of up to 4 (thorough 6) tokens the grammar can inspect, through the semantic hooks, planner.New and Execute. The corpus is also executed in the engine's schedule mode (every interleaving of the lexer, writer and worker goroutines with one preemption). Running out of the step budget is a violation of its own (C08/terminates).",
 "C09": " The filter functions are also checked on the object field over predicate-valued objects (immutable or temporal at pool anchors). A paging harness gives every one of the eleven lookup methods seven (thorough nine) results and makes page size n in [1,4] and offset k in [0,4] solver variables: page k must be exactly the k-th block of n elements of the unpaged sequence.",
 "C10": " End to end (HarnessC10Optional) six OPTIONAL shapes over K symbolic triples are compared with the reference left outer join.",
 "C11": " End to end (HarnessPipeline, through lexer, parser, planner and driver): seven GROUP BY shapes (count, count distinct, int64 sum, two counts and a sum in one statement, two grouping keys, grouping over a join, GROUP BY + ORDER BY + LIMIT) and GROUP BY a time anchor with anchors one nanosecond apart, over K symbolic triples, against a reference evaluation whose every comparison is a solver-decided branch.",
 "C12": " End to end (HarnessPipeline): eight ORDER BY / LIMIT shapes (two keys in mixed directions, int64 and time keys, ORDER BY an alias, LIMIT 0/1/2 with and without ORDER BY, the single-clause limit push-down and a two-clause LIMIT) and ORDER BY followed by HAVING and LIMIT on three rows: row count = min(n, N), every row qualifies with its multiplicity, the key sequence is the sorted one.",
 "C13": " The boolean harness takes binding-vs-binding and binding-vs-literal leaves with every operator (NOT over < and > against a constant included). End to end (HarnessPipeline): thirteen HAVING shapes (node, text, int64, time and extracted-id operands, NOT/AND/OR, a HAVING on an aggregate, HAVING between ORDER BY and LIMIT) keep exactly the qualifying rows. Binding-against-binding comparisons are checked on two int64 cells (four digits quick, full range thorough) and on text literal against extracted string cells.",
 "C14": " The number of processors and the schedule: a fan-out join over five concrete rows is executed with GOMAXPROCS 1 and 2 (4 in thorough) in the engine's schedule mode (every interleaving of the producer and the per-row workers with one preemption, happens-before race detection on): the rows are the reference join on every schedule. ORDER BY determinism: statements with a repeated ORDER BY key are executed with every map range inside bql/semantic explored in rotated and reversed order; this found a genuine defect, repaired in b2d5943.",
 "C16": " Non-termination is an obligation of its own here (a path that exhausts the step budget is a counterexample, confirmed natively by a run that does not return). Whitespace is also varied inside whole statements: twenty statements are re-joined from their tokens and one gap at a time is replaced by one or two symbolic whitespace bytes, token kinds and trimmed texts must not change (time literals after comparison operators and BEFORE/AFTER/BETWEEN, filter functions, bounds in context). Twenty-three templates put a hole of up to 2 (thorough 3) symbolic bytes deep inside every lexer state (anchors, bounds, node ids, literal values and type names, bindings, time and filter-function contexts) with the same structure obligations.",
 "C15": " triple.Parse is executed on ten templates of valid triple text with a hole of up to 3 (thorough 4) symbolic 7-bit bytes inside the subject, the predicate id, the anchor, a node or text object, in place of a separator or a component, and on the hole alone (found and repaired: the inverted slice bounds when the object separator precedes the subject separator, cad2553); typed literal templates also go through a bounded builder; the line reader is checked with and without a malformed line and with and without a final newline.",
 "C20": " The whole corpus (19 statements, two of them existence tests with aliases over one and two graphs) also runs in the engine's schedule mode with one preemption, so that the moment a driver takes between closing its channel and returning its error is any point the scheduler chooses.",
 "C18": " The no-state obligation is also checked systematically over the grammar: statement 1 is a witness sentence for every alternative of every rule (derived from the tables as in C17 and made acceptable to the semantic layer), statement 2 one of 14 corpus statements.",
 "C19": " Three more harnesses: every one of the twelve read methods read twice with independently chosen options (page size/offset symbolic, window anchors from a pool with a nanosecond step and a second zone, LatestAnchor, filter functions), optionally with a write in between; a read abandoned by its caller after 0-2 of 3 results (context cancelled), then issued again; and a read overlapping a write on one handle in schedule mode (2 preemptions) - the stale entry this leaves is a recorded finding (engine-only). A fourth harness issues two reads of any two of the twelve methods with arguments that differ only in anchor, kind or subject (cache keys must separate methods and arguments), and a rejected option combination must be rejected again on the second call.",
}
notes = {
 "C03": "Statement concrete, data symbolic over the small universe; canonical schedule (rows compared as a multiset); FILTER clauses and patterns of more than two clauses are not in the shape lists.",
 "C10": "Kernel level plus six end-to-end OPTIONAL shapes; join cells are one symbolic byte over {a,b}.",
 "C11": "Grouping cells one symbolic byte over {a,b}, summed values symbolic in [-3,3] (kernel) / int64 objects 0|1 (end to end); float sums are not covered.",
 "C12": "Float and time keys from concrete pools; end-to-end shapes over K<=2 (thorough 3) symbolic triples, ORDER BY∘HAVING∘LIMIT over 3 (4).",
 "C13": "Evaluator level plus the listed end-to-end shapes; the grammar-derived expression structure is exercised through the statement texts of those shapes only.",
 "C14": "K=1 quick, 2 thorough for the relations; GOMAXPROCS is the planner's semaphore size inside the engine's cooperative scheduler, not hardware threads; one preemption per schedule.",
 "C19": "Data is a concrete pool; the interleaving harness is engine-only (its counterexamples cannot be forced natively without hooks and are reported only as the recorded finding).",
 "C05": "Bounds L=2-3 quick, 3-4 thorough; float64 values and anchors from concrete pools (native formatting).",
}
for k, v in added.items():
    claimed[k]["text"] += v
for k, v in notes.items():
    claimed[k]["note"] = v

not_applicable = {}
for i in range(1, 21):
    pid = "C%02d" % i
    if pid not in claimed:
        not_applicable[pid] = "check not built yet in this session (planned, see DESIGN.md §4); not claimed until its harness runs clean on the unchanged tree"

m = {
 "version": 1,
 "setup_cmd": "./setup.sh",
 "hooks": {
   "guard": "verif",
   "enable": "harness and zzverif packages are injected with go/packages Overlay / go build -overlay (build tag verif); no file under /repo is written",
   "baseline_off_cmd": "cd /repo && go test -mod=mod -vet=off -count=1 ./...",
   "source_commits": [],
   "add_only": True,
 },
 "engines": [{"name": "gosym", "path": "gosym/", "serves_properties": sorted(claimed), "kind_free_text": "Go SSA -> SMT-LIB2 symbolic executor (own), z3 4.8.12 / cvc5 1.0 back ends"}],
 "checks": [],
 "not_applicable": [{"property_id": k, "reason": v} for k, v in sorted(not_applicable.items())],
 "notes": "All checks: ./check <id> --tier quick|thorough. Known findings in known_findings.txt. See DESIGN.md.",
}
for pid in sorted(claimed):
    c = claimed[pid]
    m["checks"].append({
      "property_id": pid,
      "quick_cmd": "./check %s --tier quick" % pid,
      "thorough_cmd": "./check %s --tier thorough" % pid,
      "evidence_file": "evidence/%s.json" % pid,
      "replay_cmd_template": "./check %s --replay {path}" % pid,
      "engine": "gosym",
      "level_claimed": {"category": "model_checking", "text": c["text"], "design_ref": c["ref"]},
      "level_note": c["note"],
      "technique": TECH,
    })
json.dump(m, open("MANIFEST.json", "w"), indent=1)
print("wrote MANIFEST.json with", len(m["checks"]), "checks")
