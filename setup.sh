#!/bin/sh
# Builds the symbolic executor from files on disk only (offline).
set -e
cd "$(dirname "$0")/gosym"
export GOFLAGS=-mod=mod GOPROXY=off
mkdir -p ../bin ../evidence
go build -o ../bin/gosym .
echo "built $(cd .. && pwd)/bin/gosym"
