package main

// Happens-before data-race detection (vector clocks per goroutine and per
// synchronisation object; last-write / last-read epochs per heap cell).
// Enabled only in race mode.

type cellEpoch struct {
	wG   int
	wC   int
	hasW bool
	rd   map[int]int
	wWhere string
}

type raceReport struct {
	detail string
}

func (e *Engine) where() string {
	if e.top == nil {
		return "?"
	}
	return e.top.fn.String() + " (" + e.prog.Fset.Position(e.top.pos).String() + ")"
}

func (e *Engine) raceWrite(p *Value) {
	if !raceEnabled || e.sched.cur == nil || e.inInit {
		return
	}
	e.raceAccess(p, true)
}

func (e *Engine) raceRead(p *Value) {
	if !raceEnabled || e.sched.cur == nil || e.inInit {
		return
	}
	e.raceAccess(p, false)
}

func (e *Engine) raceReadObj(m *Map)  { if raceEnabled && m != nil { e.raceAccessKey(m, false) } }
func (e *Engine) raceWriteObj(m *Map) { if raceEnabled && m != nil { e.raceAccessKey(m, true) } }

func (e *Engine) raceAccess(p *Value, write bool) { e.raceAccessKey(p, write) }

func (e *Engine) raceAccessKey(key interface{}, write bool) {
	me := e.sched.cur
	if me == nil || me.daemon || e.syncMapOp {
		return
	}
	if e.epochs == nil {
		e.epochs = map[interface{}]*cellEpoch{}
	}
	ep := e.epochs[key]
	if ep == nil {
		ep = &cellEpoch{}
		e.epochs[key] = ep
	}
	// a previous write must happen-before this access
	if ep.hasW && ep.wG != me.id && ep.wC > me.vc[ep.wG] {
		if len(e.races) < 4 {
			e.races = append(e.races, raceReport{"write by g" + itoa(ep.wG) + " at " + ep.wWhere + " unordered with access by g" + itoa(me.id) + " at " + e.where()})
		}
	}
	if write {
		for g, c := range ep.rd {
			if g != me.id && c > me.vc[g] {
				if len(e.races) < 4 {
					e.races = append(e.races, raceReport{"read by g" + itoa(g) + " unordered with write by g" + itoa(me.id) + " at " + e.where()})
				}
			}
		}
		ep.hasW, ep.wG, ep.wC = true, me.id, me.vc[me.id]+1
		ep.wWhere = e.where()
		ep.rd = nil
	} else {
		if ep.rd == nil {
			ep.rd = map[int]int{}
		}
		ep.rd[me.id] = me.vc[me.id] + 1
	}
}

func itoa(i int) string {
	if i == 0 {
		return "0"
	}
	s := ""
	for i > 0 {
		s = string(rune('0'+i%10)) + s
		i /= 10
	}
	return s
}
