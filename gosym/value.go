package main

// Run-time values of the symbolic interpreter.
//
//   *Term            bool and all integer types (incl. uintptr)
//   float64, float32 concrete floats;  FloatSym = opaque float64 with symbolic bits
//   Str              string: concrete (s) or per-byte terms (t)
//   *Value           pointer (nil pointer = (*Value)(nil))
//   Struct, Array    aggregate values (copied on load and store)
//   Slice            []Value window into a backing array (nil slice = Slice(nil))
//   *Map, *Chan      reference types (nil = typed nil pointer)
//   Iface            interface value; nil interface has t == nil
//   *ssa.Function, *Closure, *ssa.Builtin   function values
//   Tuple            multiple results
//   UnsafePtr        unsafe.Pointer wrapper

import (
	"fmt"
	"go/types"
	"strings"

	"golang.org/x/tools/go/ssa"
)

type Value = interface{}

type Str struct {
	s string
	t []*Term // non-nil ⇒ symbolic content, len(t) is the length
}

type Struct []Value
type Array []Value
type Slice []Value
type Tuple []Value

type Iface struct {
	t types.Type
	v Value
}

type Closure struct {
	Fn  *ssa.Function
	Env []Value
}

type FloatSym struct{ bits *Term }

// UnsafePtr wraps whatever pointer-ish value was converted to unsafe.Pointer.
type UnsafePtr struct{ v Value }

// SliceData is the result of unsafe.SliceData / unsafe.StringData.
type SliceData struct {
	sl  Slice
	str Str
	isS bool
}

type iterator interface {
	next(e *Engine) Tuple
}

func (s Str) Len() int {
	if s.t != nil {
		return len(s.t)
	}
	return len(s.s)
}

func (s Str) IsConcrete() bool { return s.t == nil }

func mkStr(s string) Str { return Str{s: s} }

// byteAt returns the i-th byte as an 8-bit term.
func (e *Engine) byteAt(s Str, i int) *Term {
	if s.t != nil {
		return s.t[i]
	}
	return e.ts.Const(8, uint64(s.s[i]))
}

// normStr makes a symbolic string concrete if all its bytes are constants.
func normStr(t []*Term) Str {
	for _, b := range t {
		if !b.IsConst() {
			if t == nil {
				t = []*Term{}
			}
			return Str{t: t}
		}
	}
	var sb strings.Builder
	for _, b := range t {
		sb.WriteByte(byte(b.c))
	}
	return Str{s: sb.String()}
}

func (e *Engine) strBytes(s Str) []*Term {
	if s.t != nil {
		return s.t
	}
	out := make([]*Term, len(s.s))
	for i := 0; i < len(s.s); i++ {
		out[i] = e.ts.Const(8, uint64(s.s[i]))
	}
	return out
}

func (e *Engine) strSlice(s Str, lo, hi int) Str {
	if s.t != nil {
		return normStr(s.t[lo:hi:hi])
	}
	return Str{s: s.s[lo:hi]}
}

func (e *Engine) strConcat(a, b Str) Str {
	if a.t == nil && b.t == nil {
		return Str{s: a.s + b.s}
	}
	if a.Len() == 0 {
		return b
	}
	if b.Len() == 0 {
		return a
	}
	out := make([]*Term, 0, a.Len()+b.Len())
	out = append(out, e.strBytes(a)...)
	out = append(out, e.strBytes(b)...)
	return Str{t: out}
}

func (e *Engine) strEq(a, b Str) *Term {
	if a.Len() != b.Len() {
		return e.ts.fls
	}
	if a.t == nil && b.t == nil {
		return e.ts.Bool(a.s == b.s)
	}
	if r, ok := e.sha1Eq(a, b); ok {
		return r
	}
	r := e.ts.tru
	for i := a.Len() - 1; i >= 0; i-- {
		r = e.ts.BAnd(e.ts.Cmp(opEq, e.byteAt(a, i), e.byteAt(b, i)), r)
		if r.IsFalse() {
			return r
		}
	}
	return r
}

// strLt: a < b lexicographically.
func (e *Engine) strLt(a, b Str) *Term {
	if a.t == nil && b.t == nil {
		return e.ts.Bool(a.s < b.s)
	}
	n := a.Len()
	if b.Len() < n {
		n = b.Len()
	}
	r := e.ts.Bool(a.Len() < b.Len())
	for i := n - 1; i >= 0; i-- {
		x, y := e.byteAt(a, i), e.byteAt(b, i)
		r = e.ts.Ite(e.ts.Cmp(opULt, x, y), e.ts.tru, e.ts.Ite(e.ts.Cmp(opEq, x, y), r, e.ts.fls))
	}
	return r
}

// ----- type helpers -----

func intWidth(t types.Type) (w uint8, signed bool, ok bool) {
	b, isB := t.Underlying().(*types.Basic)
	if !isB {
		return 0, false, false
	}
	switch b.Kind() {
	case types.Bool, types.UntypedBool:
		return 0, false, true
	case types.Int8:
		return 8, true, true
	case types.Int16:
		return 16, true, true
	case types.Int32, types.UntypedRune:
		return 32, true, true
	case types.Int64, types.Int, types.UntypedInt:
		return 64, true, true
	case types.Uint8:
		return 8, false, true
	case types.Uint16:
		return 16, false, true
	case types.Uint32:
		return 32, false, true
	case types.Uint64, types.Uint, types.Uintptr:
		return 64, false, true
	}
	return 0, false, false
}

func isString(t types.Type) bool {
	b, ok := t.Underlying().(*types.Basic)
	return ok && b.Info()&types.IsString != 0
}

func isFloat(t types.Type) bool {
	b, ok := t.Underlying().(*types.Basic)
	return ok && b.Info()&types.IsFloat != 0
}

func deref(t types.Type) types.Type {
	if p, ok := t.Underlying().(*types.Pointer); ok {
		return p.Elem()
	}
	panic(fmt.Sprintf("deref of non-pointer %v", t))
}

// zero returns the zero value of type t.
func (e *Engine) zero(t types.Type) Value {
	switch t := t.(type) {
	case *types.Basic:
		if t.Kind() == types.UntypedNil {
			panic("untyped nil has no zero value")
		}
		if w, _, ok := intWidth(t); ok {
			return e.ts.Const(w, 0)
		}
		switch t.Kind() {
		case types.Float32:
			return float32(0)
		case types.Float64, types.UntypedFloat:
			return float64(0)
		case types.String, types.UntypedString:
			return Str{}
		case types.UnsafePointer:
			return UnsafePtr{}
		case types.Complex64, types.Complex128:
			return complex128(0)
		}
		panic(fmt.Sprintf("zero for basic %v", t))
	case *types.Pointer:
		return (*Value)(nil)
	case *types.Array:
		a := make(Array, t.Len())
		for i := range a {
			a[i] = e.zero(t.Elem())
		}
		return a
	case *types.Named:
		return e.zero(t.Underlying())
	case *types.Alias:
		return e.zero(types.Unalias(t))
	case *types.Interface:
		return Iface{}
	case *types.Slice:
		return Slice(nil)
	case *types.Struct:
		s := make(Struct, t.NumFields())
		for i := range s {
			s[i] = e.zero(t.Field(i).Type())
		}
		return s
	case *types.Tuple:
		if t.Len() == 1 {
			return e.zero(t.At(0).Type())
		}
		s := make(Tuple, t.Len())
		for i := range s {
			s[i] = e.zero(t.At(i).Type())
		}
		return s
	case *types.Chan:
		return (*Chan)(nil)
	case *types.Map:
		return (*Map)(nil)
	case *types.Signature:
		return (*ssa.Function)(nil)
	}
	panic(fmt.Sprintf("zero: unexpected %T %v", t, t))
}

// copyVal returns a copy of v (deep for aggregates).
func copyVal(v Value) Value {
	switch v := v.(type) {
	case Struct:
		a := make(Struct, len(v))
		for i, x := range v {
			a[i] = copyVal(x)
		}
		return a
	case Array:
		a := make(Array, len(v))
		for i, x := range v {
			a[i] = copyVal(x)
		}
		return a
	}
	return v
}

// equals returns a Bool term for x == y at static type t.
func (e *Engine) equals(t types.Type, x, y Value) *Term {
	switch x := x.(type) {
	case *Term:
		yt := y.(*Term)
		if x.w == 0 {
			return e.ts.BEq(x, yt)
		}
		return e.ts.Cmp(opEq, x, yt)
	case Str:
		return e.strEq(x, y.(Str))
	case float64:
		if yf, ok := y.(float64); ok {
			return e.ts.Bool(x == yf)
		}
		e.unsupported("float comparison with symbolic float")
	case float32:
		return e.ts.Bool(x == y.(float32))
	case FloatSym:
		e.unsupported("comparison of symbolic float")
	case *Value:
		return e.ts.Bool(x == y.(*Value))
	case *Map:
		return e.ts.Bool(x == y.(*Map))
	case *Chan:
		return e.ts.Bool(x == y.(*Chan))
	case UnsafePtr:
		yu := y.(UnsafePtr)
		if x.v == nil || yu.v == nil {
			return e.ts.Bool(x.v == nil && yu.v == nil)
		}
		xp, ok1 := x.v.(*Value)
		yp, ok2 := yu.v.(*Value)
		if ok1 && ok2 {
			return e.ts.Bool(xp == yp)
		}
		e.unsupported("unsafe.Pointer comparison")
	case Struct:
		ys := y.(Struct)
		st := t.Underlying().(*types.Struct)
		r := e.ts.tru
		for i := range x {
			if st.Field(i).Name() == "_" {
				continue
			}
			r = e.ts.BAnd(r, e.equals(st.Field(i).Type(), x[i], ys[i]))
			if r.IsFalse() {
				return r
			}
		}
		return r
	case Array:
		ya := y.(Array)
		et := t.Underlying().(*types.Array).Elem()
		r := e.ts.tru
		for i := range x {
			r = e.ts.BAnd(r, e.equals(et, x[i], ya[i]))
			if r.IsFalse() {
				return r
			}
		}
		return r
	case Iface:
		yi := y.(Iface)
		if x.t == nil || yi.t == nil {
			return e.ts.Bool(x.t == nil && yi.t == nil)
		}
		if !types.Identical(x.t, yi.t) {
			return e.ts.fls
		}
		if !types.Comparable(x.t) {
			e.goPanicStr("runtime error: comparing uncomparable type " + x.t.String())
		}
		return e.equals(x.t, x.v, yi.v)
	case *ssa.Function:
		// only comparison against nil is legal
		switch yv := y.(type) {
		case *ssa.Function:
			return e.ts.Bool(x == nil && yv == nil || x == yv)
		case *Closure:
			return e.ts.Bool(false)
		}
	case *Closure:
		switch yv := y.(type) {
		case *ssa.Function:
			return e.ts.fls
		case *Closure:
			return e.ts.Bool(x == yv)
		}
	case Slice:
		// only vs nil
		ys := y.(Slice)
		if x == nil || ys == nil {
			return e.ts.Bool(x == nil && ys == nil)
		}
	}
	panic(fmt.Sprintf("equals: unhandled %T vs %T at %v", x, y, t))
}

// describe renders a value for diagnostics.
func describe(v Value) string {
	switch v := v.(type) {
	case *Term:
		if v.IsConst() {
			if v.w == 0 {
				return fmt.Sprint(v.c != 0)
			}
			return fmt.Sprint(sext(v.c, v.w))
		}
		return fmt.Sprintf("<sym%d:%d>", v.id, v.w)
	case Str:
		if v.t == nil {
			return fmt.Sprintf("%q", v.s)
		}
		return fmt.Sprintf("<symstr len %d>", len(v.t))
	case Iface:
		if v.t == nil {
			return "nil"
		}
		return fmt.Sprintf("(%v)%s", v.t, describe(v.v))
	case Struct:
		var parts []string
		for _, f := range v {
			parts = append(parts, describe(f))
		}
		return "{" + strings.Join(parts, ",") + "}"
	case *Value:
		if v == nil {
			return "nil"
		}
		return "&" + describe(*v)
	}
	return fmt.Sprintf("%T", v)
}
