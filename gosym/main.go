package main

import (
	"encoding/json"
	"flag"
	"fmt"
	"go/types"
	"os"
	"strconv"
	"strings"
	"time"
)

func types_NewPointer(t types.Type) types.Type { return types.NewPointer(t) }

func main() {
	if len(os.Args) < 2 {
		fatalf("usage: gosym run|check ...")
	}
	switch os.Args[1] {
	case "run":
		cmdRun(os.Args[2:])
	case "check":
		cmdCheck(os.Args[2:])
	default:
		fatalf("unknown command %s", os.Args[1])
	}
}

type paramFlag map[string]int

func (p paramFlag) String() string { return fmt.Sprint(map[string]int(p)) }
func (p paramFlag) Set(s string) error {
	kv := strings.SplitN(s, "=", 2)
	if len(kv) != 2 {
		return fmt.Errorf("want k=v")
	}
	v, err := strconv.Atoi(kv[1])
	if err != nil {
		return err
	}
	p[kv[0]] = v
	return nil
}

func cmdRun(args []string) {
	fs := flag.NewFlagSet("run", flag.ExitOnError)
	verifDir := fs.String("verif", "/verif", "verif directory")
	pkg := fs.String("pkg", "leaf", "harness package (directory under harness/)")
	harness := fs.String("harness", "", "harness function")
	solver := fs.String("solver", "z3", "z3|z3-new|cvc5|cvc5-int")
	workers := fs.Int("workers", 16, "workers")
	maxPaths := fs.Int("max-paths", 0, "max paths")
	maxSteps := fs.Int("max-steps", 5000000, "step budget per path")
	timeout := fs.Int("timeout-ms", 10000, "solver timeout per query")
	wall := fs.Duration("wall", 10*time.Minute, "wall budget")
	sched := fs.Bool("schedule", false, "schedule mode")
	mapOrder := fs.Bool("map-order", false, "map order mode")
	mapOrderFilter := fs.String("map-order-filter", "", "map order mode only inside functions whose name contains this")
	preempt := fs.Int("preempt", 2, "preemption bound")
	race := fs.Bool("race", false, "race detection")
	poolDirty := fs.Bool("pool-dirty", false, "sync.Pool.Get may return a previously Put object")
	debug := fs.Bool("debug", false, "debug")
	nobd := fs.Bool("no-bytedom", false, "disable the byte-domain fast path")
	xcheck := fs.Bool("xcheck", false, "cross-check byte-domain verdicts with the SMT solver")
	params := paramFlag{}
	fs.Var(params, "param", "k=v harness parameter (repeatable)")
	fs.Parse(args)
	pkgPath := modPath + "/internal/zz" + *pkg
	ld, err := load(*verifDir, []string{pkgPath})
	if err != nil {
		fatalf("load: %v", err)
	}
	cfg := RunConfig{Harness: *harness, Pkg: pkgPath, Params: params, Solver: parseSolverKind(*solver), TimeoutMS: *timeout,
		MaxSteps: *maxSteps, MaxPaths: *maxPaths, WallBudget: *wall, Workers: *workers, ScheduleMode: *sched, MapOrderMode: *mapOrder, MapOrderFilter: *mapOrderFilter,
		PreemptBound: *preempt, Race: *race, PoolDirty: *poolDirty, Debug: *debug, NoByteDom: *nobd, XCheck: *xcheck}
	hr := explore(ld, cfg)
	printResult(hr)
}

func printResult(hr *HarnessResult) {
	fmt.Printf("harness %s: paths=%d outcomes=%v decisions=%d steps=%d wall=%.1fs truncated=%v\n", hr.Config.Harness, hr.Paths, hr.Outcomes, hr.Decisions, hr.Steps, hr.WallS, hr.Truncated)
	fmt.Printf("  solver: queries=%d sat=%d unsat=%d unknown=%d errors=%d restarts=%d time=%.1fs\n", hr.Solver.Queries, hr.Solver.Sat, hr.Solver.Unsat, hr.Solver.Unknown, hr.Solver.Errors, hr.Solver.Restarts, float64(hr.Solver.WallNS)/1e9)
	fmt.Printf("  reached=%v\n  obligations=%v\n", hr.Reached, hr.Obligations)
	for _, c := range hr.Cex {
		b, _ := json.Marshal(filterModel(c.Model, c.Choices))
		fmt.Printf("  CEX %s#%s kind=%s detail=%q model=%s obs=%v\n", c.Obligation, c.Class, c.Kind, c.Detail, b, c.Observed)
	}
	for _, s := range hr.Inconclusive {
		fmt.Printf("  INCONCLUSIVE %s\n", s)
	}
}
