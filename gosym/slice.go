package main

// Constraint independence: the path condition is partitioned into clusters of
// conjuncts that share variables (union-find over variable ids; every
// uninterpreted function name counts as a variable).  A query is sent to the
// SMT solver with only the clusters its condition touches, and answers are
// cached per (conjunct set, condition) — both are exact: variables of other
// clusters cannot influence satisfiability, and their model values are kept.

import (
	"fmt"
	"os"
	"sort"
	"strconv"
	"strings"
)

type cachedQuery struct {
	v Verdict
	m Model // restricted to the variables of the slice
}

func (e *Engine) varsOf(t *Term) []int32 {
	if t == nil || t.op == opConst {
		return nil
	}
	if vs, ok := e.varsMemo[t.id]; ok {
		return vs
	}
	var out []int32
	if !t.multi && t.sv != nil {
		out = []int32{t.sv.id}
	} else {
		set := map[int32]bool{}
		seen := map[int32]bool{}
		var walk func(x *Term)
		walk = func(x *Term) {
			if x == nil || x.op == opConst || seen[x.id] {
				return
			}
			seen[x.id] = true
			if x.op == opVar {
				set[x.id] = true
				return
			}
			if vs, ok := e.varsMemo[x.id]; ok {
				for _, v := range vs {
					set[v] = true
				}
				return
			}
			if x.op == opUF {
				id, ok := e.ufIDs[x.name]
				if !ok {
					id = -int32(len(e.ufIDs) + 1)
					e.ufIDs[x.name] = id
				}
				set[id] = true
				// all sha1 output functions of one length belong together
				for _, k := range x.kids {
					walk(k)
				}
				return
			}
			walk(x.a)
			walk(x.b)
			walk(x.d)
		}
		walk(t)
		for v := range set {
			out = append(out, v)
		}
		sort.Slice(out, func(i, j int) bool { return out[i] < out[j] })
	}
	e.varsMemo[t.id] = out
	return out
}

func (e *Engine) find(v int32) int32 {
	p, ok := e.ufParent[v]
	if !ok || p == v {
		return v
	}
	r := e.find(p)
	e.ufParent[v] = r
	return r
}

// link merges the clusters of all variables of a new conjunct.
func (e *Engine) link(t *Term) {
	vs := e.varsOf(t)
	if len(vs) == 0 {
		return
	}
	r := e.find(vs[0])
	for _, v := range vs[1:] {
		r2 := e.find(v)
		if r2 != r {
			e.ufParent[r2] = r
		}
	}
}

// query decides PC ∧ extra (extra may be nil = the whole PC) and, if sat,
// returns a model of the whole PC ∧ extra.
func (e *Engine) query(extra *Term) (Verdict, Model) {
	if extra != nil && extra.uf {
		if e.debug && len(e.pendingAxioms) > 0 {
			fmt.Fprintf(os.Stderr, "UFCOND %s\n", termString(extra, 5))
		}
		e.flushAxioms()
	}
	var conj []*Term
	var roots map[int32]bool
	if extra != nil {
		roots = map[int32]bool{}
		for _, v := range e.varsOf(extra) {
			roots[e.find(v)] = true
		}
		for _, c := range e.pc {
			vs := e.varsOf(c)
			if len(vs) > 0 && roots[e.find(vs[0])] {
				conj = append(conj, c)
			}
		}
		conj = append(conj, extra)
	} else {
		conj = append(conj, e.pc...)
	}
	// cache key
	ids := make([]int, len(conj))
	for i, c := range conj {
		ids[i] = int(c.id)
	}
	sort.Ints(ids)
	var kb strings.Builder
	prev := -1
	for _, id := range ids {
		if id == prev {
			continue
		}
		prev = id
		kb.WriteString(strconv.Itoa(id))
		kb.WriteByte(',')
	}
	key := kb.String()
	var res cachedQuery
	if c, ok := e.qcache[key]; ok {
		e.qhits++
		res = c
	} else {
		// variables whose values we need back
		need := map[int32]bool{}
		for _, c := range conj {
			for _, v := range e.varsOf(c) {
				need[v] = true
			}
		}
		if qtrace {
			fmt.Fprintf(os.Stderr, "QSITE conj=%d\n%s\n", len(conj), firstLines(e.stackString(), qtraceDepth))
		}
		v, m := e.solver.CheckSet(conj, need)
		res = cachedQuery{v, m}
		if v != Unknown && len(e.qcache) < 200000 {
			e.qcache[key] = res
		}
	}
	if res.v != Sat {
		return res.v, nil
	}
	// merge with the current model (other clusters keep their values)
	full := make(Model, len(e.model)+len(res.m))
	if e.modelOK || extra != nil {
		for k, v := range e.model {
			full[k] = v
		}
	}
	for k, v := range res.m {
		full[k] = v
	}
	return Sat, full
}

// qtraceDepth: stack lines printed per query site under GOSYM_QTRACE (GOSYM_QTRACE=<n>, default 3)
var qtraceDepth = func() int {
	n := 3
	fmt.Sscanf(os.Getenv("GOSYM_QTRACE"), "%d", &n)
	if n < 3 {
		n = 3
	}
	return n
}()
