package main

// SSA interpreter over symbolic values (structure follows x/tools go/ssa/interp).

import (
	"fmt"
	"os"
	"strings"
	"go/token"
	"go/types"

	"golang.org/x/tools/go/ssa"
)

type fnInfo struct {
	idx map[ssa.Value]int32
	n   int
}

type deferred struct {
	fn    Value
	args  []Value
	instr *ssa.Defer
	tail  *deferred
}

type frame struct {
	e         *Engine
	g         *G
	caller    *frame
	fn        *ssa.Function
	fi        *fnInfo
	block     *ssa.BasicBlock
	prevBlock *ssa.BasicBlock
	env       []Value
	locals    []Value
	defers    *deferred
	result    Value
	panicking bool
	panic     goPanic
	pos       token.Pos
}

func (e *Engine) info(fn *ssa.Function) *fnInfo {
	if fi, ok := e.fnInfo[fn]; ok {
		return fi
	}
	fi := &fnInfo{idx: map[ssa.Value]int32{}}
	add := func(v ssa.Value) {
		fi.idx[v] = int32(fi.n)
		fi.n++
	}
	for _, p := range fn.Params {
		add(p)
	}
	for _, fv := range fn.FreeVars {
		add(fv)
	}
	for _, b := range fn.Blocks {
		for _, in := range b.Instrs {
			if v, ok := in.(ssa.Value); ok {
				add(v)
			}
		}
	}
	e.fnInfo[fn] = fi
	return fi
}

func (fr *frame) get(key ssa.Value) Value {
	switch key := key.(type) {
	case nil:
		return nil
	case *ssa.Function:
		return key
	case *ssa.Builtin:
		return key
	case *ssa.Const:
		return fr.e.constValue(key)
	case *ssa.Global:
		if fr.e.poisoned != nil && fr.e.poisoned[key] && !fr.e.inInit {
			// the variable gets its value in a package initialiser the engine does
			// not interpret: whatever is computed from its zero value would be wrong
			fr.e.unsupported("use of %s, which is set by the initialiser of %s (not interpreted)", key.Name(), key.Pkg.Pkg.Path())
		}
		if r, ok := fr.e.globals[key]; ok {
			return r
		}
		panic(fmt.Sprintf("no global %v", key))
	}
	if i, ok := fr.fi.idx[key]; ok {
		v := fr.env[i]
		if v == nil {
			panic(fmt.Sprintf("get: unset value %s in %s", key.Name(), fr.fn))
		}
		return v
	}
	panic(fmt.Sprintf("get: no value for %T: %v in %s", key, key.Name(), fr.fn))
}

func (fr *frame) set(key ssa.Value, v Value) {
	fr.env[fr.fi.idx[key]] = v
}

func (e *Engine) constValue(c *ssa.Const) Value {
	t := c.Type()
	if c.Value == nil {
		return e.zero(t)
	}
	if tp, ok := t.(*types.TypeParam); ok {
		_ = tp
		panic("constValue: type param")
	}
	if w, _, ok := intWidth(t); ok {
		if w == 0 {
			return e.ts.Bool(constantBool(c))
		}
		if b := t.Underlying().(*types.Basic); b.Info()&types.IsUnsigned != 0 {
			return e.ts.Const(w, c.Uint64())
		}
		return e.ts.Const(w, uint64(c.Int64()))
	}
	switch b := t.Underlying().(type) {
	case *types.Basic:
		switch {
		case b.Info()&types.IsString != 0:
			return mkStr(constantString(c))
		case b.Kind() == types.Float32:
			return float32(c.Float64())
		case b.Info()&types.IsFloat != 0:
			return c.Float64()
		case b.Info()&types.IsComplex != 0:
			return c.Complex128()
		}
	}
	panic(fmt.Sprintf("constValue: %v %v", c, t))
}

// runDefer runs one deferred call; it may set or clear fr.panic.
func (fr *frame) runDefer(d *deferred) {
	var ok bool
	defer func() {
		if !ok {
			r := recover()
			if gp, is := r.(goPanic); is {
				fr.panicking = true
				fr.panic = gp
			} else {
				panic(r)
			}
		}
	}()
	fr.e.call(fr, d.instr.Pos(), d.fn, d.args)
	ok = true
}

func (fr *frame) runDefers() {
	for d := fr.defers; d != nil; d = d.tail {
		fr.defers = d.tail
		fr.runDefer(d)
	}
	fr.defers = nil
	if fr.panicking {
		panic(fr.panic)
	}
}

func (e *Engine) prepareCall(fr *frame, call *ssa.CallCommon) (fn Value, args []Value) {
	v := fr.get(call.Value)
	if call.Method == nil {
		fn = v
	} else {
		recv := v.(Iface)
		if recv.t == nil {
			e.goPanicStr("runtime error: invalid memory address or nil pointer dereference (method call on nil interface)")
		}
		f := e.prog.LookupMethod(recv.t, call.Method.Pkg(), call.Method.Name())
		if f == nil {
			panic(fmt.Sprintf("method set for dynamic type %v does not contain %s", recv.t, call.Method))
		}
		fn = f
		args = append(args, recv.v)
	}
	for _, arg := range call.Args {
		args = append(args, fr.get(arg))
	}
	return
}

func (e *Engine) call(caller *frame, pos token.Pos, fn Value, args []Value) Value {
	switch fn := fn.(type) {
	case *ssa.Function:
		if fn == nil {
			e.goPanicStr("runtime error: invalid memory address or nil pointer dereference (call of nil func)")
		}
		return e.callSSA(caller, pos, fn, args, nil)
	case *Closure:
		return e.callSSA(caller, pos, fn.Fn, args, fn.Env)
	case *ssa.Builtin:
		return e.callBuiltin(caller, pos, fn, args)
	case HostFunc:
		return fn(e, args)
	}
	panic(fmt.Sprintf("cannot call %T", fn))
}

// GOSYM_DUMPFN=<substring>: print the SSA of matching functions when first called (debugging aid)
var dumpFn = os.Getenv("GOSYM_DUMPFN")
var dumped = map[*ssa.Function]bool{}

func (e *Engine) callSSA(caller *frame, pos token.Pos, fn *ssa.Function, args []Value, env []Value) Value {
	var g *G
	if caller != nil {
		g = caller.g
	} else {
		g = e.sched.cur
	}
	fr := &frame{e: e, g: g, caller: caller, fn: fn, pos: pos}
	if dumpFn != "" && strings.Contains(fn.String(), dumpFn) && !dumped[fn] {
		dumped[fn] = true
		fn.WriteTo(os.Stderr)
	}
	if fn.Synthetic == "package initializer" && fn.Pkg != nil && !initAllowed(fn.Pkg.Pkg.Path()) {
		return nil
	}
	{
		name := fn.String()
		if in, ok := e.intr[name]; ok {
			return in(e, fr, args)
		}
		if fn.Origin() != nil {
			if in, ok := e.intr[fn.Origin().String()]; ok {
				return in(e, fr, args)
			}
		}
		if fn.Blocks == nil {
			e.unsupported("no code for function: %s", name)
		}
	}
	if fn.TypeParams().Len() > 0 && len(fn.TypeArgs()) == 0 {
		e.unsupported("uninstantiated generic function %s", fn)
	}
	if e.trackFns != nil {
		if !e.fnsSeen[fn.String()] {
			e.fnsSeen[fn.String()] = true
		}
	}
	if g != nil {
		g.depth++
		if g.depth > 2000 {
			e.unsupported("interpreted stack too deep in %s", fn)
		}
		defer func() { g.depth-- }()
	}
	fi := e.info(fn)
	fr.fi = fi
	fr.env = make([]Value, fi.n)
	fr.block = fn.Blocks[0]
	fr.locals = make([]Value, len(fn.Locals))
	for i, l := range fn.Locals {
		fr.locals[i] = e.zero(deref(l.Type()))
		fr.env[fi.idx[l]] = &fr.locals[i]
	}
	for i, p := range fn.Params {
		fr.env[fi.idx[p]] = args[i]
	}
	for i, fv := range fn.FreeVars {
		fr.env[fi.idx[fv]] = env[i]
	}
	prevTop := e.top
	e.top = fr
	for fr.block != nil {
		e.runFrame(fr)
	}
	e.top = prevTop
	return fr.result
}

// stackString renders the interpreted call stack (deepest first).
func (e *Engine) stackString() string {
	var sb strings.Builder
	n := 0
	for fr := e.top; fr != nil && n < 40; fr = fr.caller {
		pos := e.prog.Fset.Position(fr.pos)
		fmt.Fprintf(&sb, "    %s (call at %s)\n", fr.fn, pos)
		n++
	}
	return sb.String()
}

func (e *Engine) runFrame(fr *frame) {
	defer func() {
		if fr.block == nil {
			return // normal return
		}
		r := recover()
		gp, is := r.(goPanic)
		if !is {
			panic(r)
		}
		fr.panicking = true
		fr.panic = gp
		e.top = fr
		fr.runDefers() // re-panics unless recovered
		// recovered
		fr.block = fr.fn.Recover
		if fr.block == nil {
			// no named results: return zero values
			res := fr.fn.Signature.Results()
			switch res.Len() {
			case 0:
				fr.result = nil
			default:
				fr.result = e.zero(res)
			}
		}
	}()
	for {
		// phis first
		blk := fr.block
		instrs := blk.Instrs
		i := 0
		if len(instrs) > 0 {
			if _, ok := instrs[0].(*ssa.Phi); ok {
				// parallel assignment
				var tmp [8]Value
				vals := tmp[:0]
				for _, in := range instrs {
					phi, ok := in.(*ssa.Phi)
					if !ok {
						break
					}
					for pi, pred := range blk.Preds {
						if pred == fr.prevBlock {
							vals = append(vals, fr.get(phi.Edges[pi]))
							break
						}
					}
				}
				for k := range vals {
					fr.set(instrs[k].(*ssa.Phi), vals[k])
				}
				i = len(vals)
			}
		}
		jumped := false
		for ; i < len(instrs); i++ {
			e.steps++
			if e.steps > e.maxSteps {
				panic(pathEnd{"budget"})
			}
			switch e.visitInstr(fr, instrs[i]) {
			case kReturn:
				return
			case kJump:
				jumped = true
			}
			if jumped {
				break
			}
		}
		if !jumped {
			panic("block fell through: " + fr.fn.String())
		}
	}
}

type continuation int

const (
	kNext continuation = iota
	kReturn
	kJump
)

func (e *Engine) visitInstr(fr *frame, instr ssa.Instruction) continuation {
	switch instr := instr.(type) {
	case *ssa.DebugRef:
	case *ssa.UnOp:
		fr.set(instr, e.unop(fr, instr, fr.get(instr.X)))
	case *ssa.BinOp:
		fr.set(instr, e.binop(instr.Op, instr.X.Type(), fr.get(instr.X), fr.get(instr.Y)))
	case *ssa.Call:
		fn, args := e.prepareCall(fr, &instr.Call)
		fr.pos = instr.Pos()
		r := e.call(fr, instr.Pos(), fn, args)
		if r == nil {
			r = Tuple(nil)
		}
		fr.set(instr, r)
	case *ssa.ChangeInterface:
		fr.set(instr, fr.get(instr.X))
	case *ssa.ChangeType:
		fr.set(instr, fr.get(instr.X))
	case *ssa.Convert:
		fr.set(instr, e.conv(instr.Type(), instr.X.Type(), fr.get(instr.X)))
	case *ssa.SliceToArrayPointer:
		e.unsupported("SliceToArrayPointer")
	case *ssa.MultiConvert:
		e.unsupported("MultiConvert")
	case *ssa.MakeInterface:
		fr.set(instr, Iface{t: instr.X.Type(), v: fr.get(instr.X)})
	case *ssa.Extract:
		fr.set(instr, fr.get(instr.Tuple).(Tuple)[instr.Index])
	case *ssa.Slice:
		fr.set(instr, e.slice(instr, fr.get(instr.X), e.bound64(fr, instr.Low), e.bound64(fr, instr.High), e.bound64(fr, instr.Max)))
	case *ssa.Return:
		switch len(instr.Results) {
		case 0:
			fr.result = nil
		case 1:
			fr.result = fr.get(instr.Results[0])
		default:
			res := make(Tuple, len(instr.Results))
			for i, r := range instr.Results {
				res[i] = fr.get(r)
			}
			fr.result = res
		}
		fr.block = nil
		return kReturn
	case *ssa.RunDefers:
		fr.runDefers()
	case *ssa.Panic:
		panic(goPanic{fr.get(instr.X)})
	case *ssa.Send:
		e.chanSend(fr.get(instr.Chan).(*Chan), copyVal(fr.get(instr.X)))
	case *ssa.Store:
		e.store(fr.get(instr.Addr).(*Value), fr.get(instr.Val))
	case *ssa.If:
		succ := 1
		if e.decide(fr.get(instr.Cond).(*Term)) {
			succ = 0
		}
		fr.prevBlock, fr.block = fr.block, fr.block.Succs[succ]
		return kJump
	case *ssa.Jump:
		fr.prevBlock, fr.block = fr.block, fr.block.Succs[0]
		return kJump
	case *ssa.Defer:
		fn, args := e.prepareCall(fr, &instr.Call)
		if instr.DeferStack != nil {
			e.unsupported("Defer with explicit DeferStack")
		}
		fr.defers = &deferred{fn: fn, args: args, instr: instr, tail: fr.defers}
	case *ssa.Go:
		fn, args := e.prepareCall(fr, &instr.Call)
		e.goStart(fn, args)
	case *ssa.MakeChan:
		n := e.concInt(fr.get(instr.Size))
		if n < 0 {
			e.goPanicStr("makechan: size out of range")
		}
		if n > 1<<24 {
			// runtime.makechan: a buffer of more than maxAlloc (2^48) bytes panics;
			// a smaller one the machine cannot provide kills the process
			esz := (&types.StdSizes{WordSize: 8, MaxAlign: 8}).Sizeof(instr.Type().Underlying().(*types.Chan).Elem())
			if esz > 0 && n > (1<<48)/esz {
				e.goPanicStr("makechan: size out of range")
			}
			if esz > 0 {
				panic(pathEnd{"fatal error: runtime: out of memory"})
			}
		}
		fr.set(instr, e.makeChan(int(n)))
	case *ssa.Alloc:
		var addr *Value
		if instr.Heap {
			addr = new(Value)
			fr.set(instr, addr)
		} else {
			addr = fr.get(instr).(*Value)
		}
		*addr = e.zero(deref(instr.Type()))
	case *ssa.MakeSlice:
		// range forks first, so that an out-of-range symbolic size is one
		// panicking path instead of an enumeration of its values
		for _, v := range []ssa.Value{instr.Len, instr.Cap} {
			t := e.idx64(fr.get(v), v.Type())
			if !t.IsConst() {
				if !e.decide(e.ts.Cmp(opULe, t, e.ts.Const(64, 1<<24))) {
					e.goPanicStr("runtime error: makeslice: len out of range")
				}
			}
		}
		n := e.concInt(fr.get(instr.Len))
		c := e.concInt(fr.get(instr.Cap))
		if n < 0 || c < n || c > 1<<24 {
			e.goPanicStr("runtime error: makeslice: len out of range")
		}
		sl := make(Slice, c)
		tElt := instr.Type().Underlying().(*types.Slice).Elem()
		if _, isB := tElt.Underlying().(*types.Basic); isB {
			z := e.zero(tElt)
			for i := range sl {
				sl[i] = z
			}
		} else {
			for i := range sl {
				sl[i] = e.zero(tElt)
			}
		}
		fr.set(instr, sl[:n])
	case *ssa.MakeMap:
		fr.set(instr, e.makeMap(instr.Type().Underlying().(*types.Map)))
	case *ssa.Range:
		fr.set(instr, e.rangeIter(fr.get(instr.X), instr.X.Type()))
	case *ssa.Next:
		fr.set(instr, fr.get(instr.Iter).(iterator).next(e))
	case *ssa.FieldAddr:
		p := fr.get(instr.X).(*Value)
		if p == nil {
			e.goPanicStr("runtime error: invalid memory address or nil pointer dereference")
		}
		fr.set(instr, &(*p).(Struct)[instr.Field])
	case *ssa.Field:
		fr.set(instr, fr.get(instr.X).(Struct)[instr.Field])
	case *ssa.IndexAddr:
		x := fr.get(instr.X)
		switch x := x.(type) {
		case Slice:
			idx := e.idx64(fr.get(instr.Index), instr.Index.Type())
			if !idx.IsConst() && onlyLoaded(instr) {
				fr.set(instr, e.symElem([]Value(x), idx))
				break
			}
			i := e.indexCheck(idx, len(x))
			fr.set(instr, &x[i])
		case *Value:
			if x == nil {
				e.goPanicStr("runtime error: invalid memory address or nil pointer dereference")
			}
			a := (*x).(Array)
			idx := e.idx64(fr.get(instr.Index), instr.Index.Type())
			if !idx.IsConst() && onlyLoaded(instr) {
				fr.set(instr, e.symElem([]Value(a), idx))
				break
			}
			i := e.indexCheck(idx, len(a))
			fr.set(instr, &a[i])
		default:
			panic(fmt.Sprintf("unexpected x type in IndexAddr: %T", x))
		}
	case *ssa.Index:
		x := fr.get(instr.X)
		idx := e.idx64(fr.get(instr.Index), instr.Index.Type())
		switch x := x.(type) {
		case Array:
			fr.set(instr, e.indexArray(x, idx))
		case Str:
			fr.set(instr, e.indexStr(x, idx))
		default:
			panic(fmt.Sprintf("unexpected x type in Index: %T", x))
		}
	case *ssa.Lookup:
		fr.set(instr, e.lookup(instr, fr.get(instr.X), fr.get(instr.Index)))
	case *ssa.MapUpdate:
		m := fr.get(instr.Map).(*Map)
		if m == nil {
			e.goPanicStr("assignment to entry in nil map")
		}
		e.mapInsert(m, fr.get(instr.Key), copyVal(fr.get(instr.Value)))
	case *ssa.TypeAssert:
		fr.set(instr, e.typeAssert(instr, fr.get(instr.X).(Iface)))
	case *ssa.MakeClosure:
		bindings := make([]Value, len(instr.Bindings))
		for i, b := range instr.Bindings {
			bindings[i] = fr.get(b)
		}
		fr.set(instr, &Closure{instr.Fn.(*ssa.Function), bindings})
	case *ssa.Phi:
		panic("unreachable phi")
	case *ssa.Select:
		fr.set(instr, e.doSelect(fr, instr))
	default:
		panic(fmt.Sprintf("unexpected instruction: %T", instr))
	}
	return kNext
}

// SymPtr is the address of xs[idx] for a symbolic idx that is only ever loaded from.
type SymPtr struct {
	xs  []Value
	idx *Term
}

func onlyLoaded(instr *ssa.IndexAddr) bool {
	refs := instr.Referrers()
	if refs == nil || len(*refs) == 0 {
		return false
	}
	for _, r := range *refs {
		u, ok := r.(*ssa.UnOp)
		if !ok || u.Op != token.MUL {
			return false
		}
	}
	return true
}

// symElem bounds-checks idx (fork) and returns a SymPtr for scalar elements;
// otherwise concretizes.
func (e *Engine) symElem(xs []Value, idx *Term) Value {
	n := len(xs)
	i64 := e.widen(idx)
	in := e.ts.Cmp(opULt, i64, e.ts.Const(64, uint64(n)))
	if !e.decide(in) {
		e.goPanicStr(fmt.Sprintf("runtime error: index out of range [symbolic] with length %d", n))
	}
	for _, x := range xs {
		if _, ok := x.(*Term); !ok {
			return &xs[e.concretize(i64)]
		}
	}
	return &SymPtr{xs: xs, idx: i64}
}

// store writes v to *addr (copying aggregates) and journals it.
func (e *Engine) store(addr *Value, v Value) {
	if addr == nil {
		e.goPanicStr("runtime error: invalid memory address or nil pointer dereference")
	}
	e.raceWrite(addr)
	e.assign(addr, v)
}

// assign copies v into *addr.  An aggregate is copied element by element into
// the aggregate already stored there, so that pointers to its fields taken
// before the store (go/ssa computes &b.f before it emits *b = T{}) keep
// pointing into the variable.
func (e *Engine) assign(addr *Value, v Value) {
	switch nv := v.(type) {
	case Struct:
		if old, ok := (*addr).(Struct); ok && len(old) == len(nv) {
			for i := range nv {
				e.assign(&old[i], nv[i])
			}
			return
		}
	case Array:
		if old, ok := (*addr).(Array); ok && len(old) == len(nv) {
			for i := range nv {
				e.assign(&old[i], nv[i])
			}
			return
		}
	}
	if e.journaling {
		e.journal = append(e.journal, undo{p: addr, old: *addr})
	}
	*addr = copyVal(v)
}

func (e *Engine) load(addr *Value) Value {
	if addr == nil {
		e.goPanicStr("runtime error: invalid memory address or nil pointer dereference")
	}
	e.raceRead(addr)
	return copyVal(*addr)
}

// indexCheck bounds-checks a (possibly symbolic) index and concretizes it.
func (e *Engine) indexCheck(idx *Term, n int) int {
	if idx.IsConst() {
		i := sext(idx.c, idx.w)
		if i < 0 || i >= int64(n) {
			e.goPanicStr(fmt.Sprintf("runtime error: index out of range [%d] with length %d", i, n))
		}
		return int(i)
	}
	i64 := e.widen(idx)
	in := e.ts.Cmp(opULt, i64, e.ts.Const(64, uint64(n)))
	if !e.decide(in) {
		e.goPanicStr(fmt.Sprintf("runtime error: index out of range [symbolic] with length %d", n))
	}
	return int(e.concretize(i64))
}

// idx64 converts an index operand to a 64-bit term according to its type.
func (e *Engine) idx64(v Value, t types.Type) *Term {
	x := v.(*Term)
	if x.w == 64 {
		return x
	}
	if _, signed, _ := intWidth(t); signed {
		return e.ts.SExt(x, 64)
	}
	return e.ts.ZExt(x, 64)
}

func (e *Engine) bound64(fr *frame, v ssa.Value) Value {
	if v == nil {
		return nil
	}
	return e.idx64(fr.get(v), v.Type())
}

// widen sign-extends an index term to 64 bits (indices are ints; smaller
// unsigned types are zero-extended by the Convert that precedes).
func (e *Engine) widen(idx *Term) *Term {
	if idx.w == 64 {
		return idx
	}
	return e.ts.SExt(idx, 64)
}

// indexArray reads a[idx] from an array value (possibly symbolic index).
func (e *Engine) indexArray(a Array, idx *Term) Value {
	if idx.IsConst() {
		i := sext(idx.c, idx.w)
		if i < 0 || i >= int64(len(a)) {
			e.goPanicStr(fmt.Sprintf("runtime error: index out of range [%d] with length %d", i, len(a)))
		}
		return copyVal(a[i])
	}
	return e.selectFrom([]Value(a), idx)
}

// selectFrom reads xs[idx] for a symbolic idx: bounds fork, then either an
// ite-chain (scalar elements) or concretization.
func (e *Engine) selectFrom(xs []Value, idx *Term) Value {
	i64 := e.widen(idx)
	n := len(xs)
	in := e.ts.Cmp(opULt, i64, e.ts.Const(64, uint64(n)))
	if !e.decide(in) {
		e.goPanicStr(fmt.Sprintf("runtime error: index out of range [symbolic] with length %d", n))
	}
	return e.selectNoCheck(xs, i64)
}

func (e *Engine) selectNoCheck(xs []Value, i64 *Term) Value {
	n := len(xs)
	allTerm := n > 0
	for _, x := range xs {
		if _, ok := x.(*Term); !ok {
			allTerm = false
			break
		}
	}
	if !allTerm {
		return copyVal(xs[e.concretize(i64)])
	}
	// build ite over runs of equal values
	type run struct {
		lo, hi int
		v      *Term
	}
	var runs []run
	for i, x := range xs {
		t := x.(*Term)
		if len(runs) > 0 && runs[len(runs)-1].v == t {
			runs[len(runs)-1].hi = i
		} else {
			runs = append(runs, run{i, i, t})
		}
	}
	res := runs[len(runs)-1].v
	for k := len(runs) - 2; k >= 0; k-- {
		r := runs[k]
		res = e.ts.Ite(e.ts.Cmp(opULe, i64, e.ts.Const(64, uint64(r.hi))), r.v, res)
	}
	return res
}

func (e *Engine) indexStr(s Str, idx *Term) Value {
	n := s.Len()
	if idx.IsConst() {
		i := sext(idx.c, idx.w)
		if i < 0 || i >= int64(n) {
			e.goPanicStr(fmt.Sprintf("runtime error: index out of range [%d] with length %d", i, n))
		}
		return e.byteAt(s, int(i))
	}
	xs := make([]Value, n)
	for i := 0; i < n; i++ {
		xs[i] = e.byteAt(s, i)
	}
	return e.selectFrom(xs, idx)
}

func (e *Engine) slice(instr *ssa.Slice, x, lo, hi, max Value) Value {
	var Len, Cap int
	switch x := x.(type) {
	case Str:
		Len = x.Len()
		Cap = Len
	case Slice:
		Len = len(x)
		Cap = cap(x)
	case *Value:
		if x == nil {
			e.goPanicStr("runtime error: invalid memory address or nil pointer dereference")
		}
		a := (*x).(Array)
		Len = len(a)
		Cap = Len
	}
	l, h, m := int64(0), int64(Len), int64(Cap)
	// evaluate bounds with explicit range forks so that panics are outcomes
	getBound := func(v Value, limit int64) int64 {
		t := v.(*Term)
		if t.IsConst() {
			return sext(t.c, t.w)
		}
		t64 := e.widen(t)
		in := e.ts.Cmp(opULe, t64, e.ts.Const(64, uint64(limit)))
		if !e.decide(in) {
			e.goPanicStr("runtime error: slice bounds out of range [symbolic]")
		}
		return int64(e.concretize(t64))
	}
	limit := int64(Cap)
	if _, isStr := x.(Str); isStr {
		limit = int64(Len)
	}
	if max != nil {
		m = getBound(max, limit)
	}
	if hi != nil {
		h = getBound(hi, limit)
	}
	if lo != nil {
		l = getBound(lo, limit)
	}
	if _, isStr := x.(Str); isStr {
		if h < 0 || h > int64(Len) {
			e.goPanicStr(fmt.Sprintf("runtime error: slice bounds out of range [:%d] with length %d", h, Len))
		}
	} else if max != nil {
		if m < 0 || m > int64(Cap) {
			e.goPanicStr(fmt.Sprintf("runtime error: slice bounds out of range [::%d] with capacity %d", m, Cap))
		}
		if h < 0 || h > m {
			e.goPanicStr(fmt.Sprintf("runtime error: slice bounds out of range [:%d:%d]", h, m))
		}
	} else if h < 0 || h > int64(Cap) {
		e.goPanicStr(fmt.Sprintf("runtime error: slice bounds out of range [:%d] with capacity %d", h, Cap))
	}
	if l < 0 || l > h {
		e.goPanicStr(fmt.Sprintf("runtime error: slice bounds out of range [%d:%d]", l, h))
	}
	switch x := x.(type) {
	case Str:
		return e.strSlice(x, int(l), int(h))
	case Slice:
		if x == nil {
			return Slice(nil)
		}
		return x[l:h:m]
	case *Value:
		a := (*x).(Array)
		return Slice(a)[l:h:m]
	}
	panic(fmt.Sprintf("slice: unexpected X type: %T", x))
}

func (e *Engine) typeAssert(instr *ssa.TypeAssert, itf Iface) Value {
	var v Value
	ok := false
	if itf.t != nil {
		if ti, isI := instr.AssertedType.Underlying().(*types.Interface); isI {
			if e.implements(itf.t, ti) {
				v = itf
				ok = true
			}
		} else if types.Identical(itf.t, instr.AssertedType) {
			v = itf.v
			ok = true
		}
	}
	if !ok {
		if !instr.CommaOk {
			from := "nil"
			if itf.t != nil {
				from = itf.t.String()
			}
			e.goPanicStr(fmt.Sprintf("interface conversion: interface is %s, not %s", from, instr.AssertedType))
		}
		v = e.zero(instr.AssertedType)
	}
	if instr.CommaOk {
		return Tuple{v, e.ts.Bool(ok)}
	}
	return v
}

type implKey struct {
	t types.Type
	i *types.Interface
}

var implCache = map[implKey]bool{}

func (e *Engine) implements(t types.Type, ti *types.Interface) bool {
	if ti.NumMethods() == 0 {
		return true
	}
	k := implKey{t, ti}
	e.ld.mu.Lock()
	defer e.ld.mu.Unlock()
	if r, ok := e.ld.implCache[k]; ok {
		return r
	}
	r := types.Implements(t, ti)
	e.ld.implCache[k] = r
	return r
}
