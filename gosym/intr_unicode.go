package main

// Summaries of pure rune functions.  strconv.IsPrint, unicode.IsLetter, … are
// binary searches over static range tables: interpreted on a symbolic rune
// they fork once per table probe.  They are pure functions of one rune, so
// each is summarised by its exact extension, computed by calling the host's
// own copy of the function (same Go release as /repo builds with) on every
// code point: a predicate becomes a disjunction of ranges, a rune→rune map an
// ite-chain over segments of constant offset.  No behaviour is approximated.

import (
	"strconv"
	"sync"
	"unicode"
)

type runeRange struct{ lo, hi uint32 }
type runeSeg struct {
	lo, hi uint32
	delta  int32
}

var (
	summaryMu    sync.Mutex
	predRanges   = map[string][]runeRange{}
	mapSegments  = map[string][]runeSeg{}
)

const maxRune = 0x10FFFF

func rangesOf(name string, f func(rune) bool) []runeRange {
	summaryMu.Lock()
	defer summaryMu.Unlock()
	if r, ok := predRanges[name]; ok {
		return r
	}
	var out []runeRange
	in := false
	var lo uint32
	for r := uint32(0); r <= maxRune+1; r++ {
		v := r <= maxRune && f(rune(r))
		if v && !in {
			in, lo = true, r
		} else if !v && in {
			in = false
			out = append(out, runeRange{lo, r - 1})
		}
	}
	predRanges[name] = out
	return out
}

func segmentsOf(name string, f func(rune) rune) []runeSeg {
	summaryMu.Lock()
	defer summaryMu.Unlock()
	if s, ok := mapSegments[name]; ok {
		return s
	}
	var out []runeSeg
	for r := uint32(0); r <= maxRune; r++ {
		d := int32(f(rune(r))) - int32(r)
		if d == 0 {
			continue
		}
		if n := len(out); n > 0 && out[n-1].hi+1 == r && out[n-1].delta == d {
			out[n-1].hi = r
		} else {
			out = append(out, runeSeg{r, r, d})
		}
	}
	mapSegments[name] = out
	return out
}

// runePred builds the Bool term f(r) for a symbolic 32-bit rune.
func (e *Engine) runePred(name string, f func(rune) bool, r *Term) *Term {
	if r.IsConst() {
		return e.ts.Bool(f(rune(int32(r.c))))
	}
	rs := rangesOf(name, f)
	// balanced disjunction
	var build func(lo, hi int) *Term
	build = func(lo, hi int) *Term {
		if lo > hi {
			return e.ts.fls
		}
		if lo == hi {
			x := rs[lo]
			if x.lo == x.hi {
				return e.ts.Cmp(opEq, r, e.ts.Const(32, uint64(x.lo)))
			}
			return e.ts.BAnd(e.ts.Cmp(opULe, e.ts.Const(32, uint64(x.lo)), r), e.ts.Cmp(opULe, r, e.ts.Const(32, uint64(x.hi))))
		}
		mid := (lo + hi) / 2
		// r ≤ rs[mid].hi ? left : right
		return e.ts.Ite(e.ts.Cmp(opULe, r, e.ts.Const(32, uint64(rs[mid].hi))), build(lo, mid), build(mid+1, hi))
	}
	return build(0, len(rs)-1)
}

// runeMap builds the term f(r) for a symbolic 32-bit rune.
func (e *Engine) runeMap(name string, f func(rune) rune, r *Term) *Term {
	if r.IsConst() {
		return e.ts.Const(32, uint64(uint32(f(rune(int32(r.c))))))
	}
	segs := segmentsOf(name, f)
	var build func(lo, hi int) *Term
	build = func(lo, hi int) *Term {
		if lo > hi {
			return r
		}
		if lo == hi {
			s := segs[lo]
			in := e.ts.BAnd(e.ts.Cmp(opULe, e.ts.Const(32, uint64(s.lo)), r), e.ts.Cmp(opULe, r, e.ts.Const(32, uint64(s.hi))))
			return e.ts.Ite(in, e.ts.Bin(opAdd, r, e.ts.Const(32, uint64(uint32(s.delta)))), r)
		}
		mid := (lo + hi) / 2
		return e.ts.Ite(e.ts.Cmp(opULe, r, e.ts.Const(32, uint64(segs[mid].hi))), build(lo, mid), build(mid+1, hi))
	}
	return build(0, len(segs)-1)
}

func init() {
	extraIntrinsics = append(extraIntrinsics, func(e *Engine) {
		in := e.intr
		preds := map[string]func(rune) bool{
			"strconv.IsPrint":    strconv.IsPrint,
			"strconv.IsGraphic":  strconv.IsGraphic,
			"unicode.IsPrint":    unicode.IsPrint,
			"unicode.IsGraphic":  unicode.IsGraphic,
			"unicode.IsLetter":   unicode.IsLetter,
			"unicode.IsDigit":    unicode.IsDigit,
			"unicode.IsNumber":   unicode.IsNumber,
			"unicode.IsSpace":    unicode.IsSpace,
			"unicode.IsUpper":    unicode.IsUpper,
			"unicode.IsLower":    unicode.IsLower,
			"unicode.IsPunct":    unicode.IsPunct,
			"unicode.IsControl":  unicode.IsControl,
			"unicode.IsSymbol":   unicode.IsSymbol,
			"unicode.IsMark":     unicode.IsMark,
			"unicode.IsTitle":    unicode.IsTitle,
		}
		for name, f := range preds {
			name, f := name, f
			in[name] = func(e *Engine, fr *frame, a []Value) Value {
				return e.runePred(name, f, a[0].(*Term))
			}
		}
		maps := map[string]func(rune) rune{
			"unicode.ToLower":    unicode.ToLower,
			"unicode.ToUpper":    unicode.ToUpper,
			"unicode.ToTitle":    unicode.ToTitle,
			"unicode.SimpleFold": unicode.SimpleFold,
		}
		for name, f := range maps {
			name, f := name, f
			in[name] = func(e *Engine, fr *frame, a []Value) Value {
				return e.runeMap(name, f, a[0].(*Term))
			}
		}
	})
}
