package main

// SMT terms: hash-consed DAG of Bool / bit-vector expressions with constant
// folding, an evaluator (for models) and an SMT-LIB2 printer.

import (
	"fmt"
	"math/bits"
	"strings"
)

type Op uint8

const (
	opConst Op = iota
	opVar
	// bit-vector arithmetic
	opAdd
	opSub
	opMul
	opUDiv
	opSDiv
	opURem
	opSRem
	opAnd
	opOr
	opXor
	opShl
	opLShr
	opAShr
	opNot // bvnot
	opNeg // bvneg
	// comparisons (result Bool)
	opEq
	opULt
	opULe
	opSLt
	opSLe
	// bool
	opBAnd
	opBOr
	opBNot
	// structure
	opIte     // a ? b : c (bool or bv)
	opExtract // c = lo, width w
	opZExt    // to width w
	opSExt    // to width w
	opConcat  // a high, b low
	opUF      // uninterpreted function application: name, args in kids
)

var opNames = [...]string{
	opAdd: "bvadd", opSub: "bvsub", opMul: "bvmul", opUDiv: "bvudiv", opSDiv: "bvsdiv",
	opURem: "bvurem", opSRem: "bvsrem", opAnd: "bvand", opOr: "bvor", opXor: "bvxor",
	opShl: "bvshl", opLShr: "bvlshr", opAShr: "bvashr", opNot: "bvnot", opNeg: "bvneg",
	opEq: "=", opULt: "bvult", opULe: "bvule", opSLt: "bvslt", opSLe: "bvsle",
	opBAnd: "and", opBOr: "or", opBNot: "not", opIte: "ite", opConcat: "concat",
}

// Term is an SMT term. w == 0 means sort Bool, otherwise (_ BitVec w).
type Term struct {
	op   Op
	w    uint8
	c    uint64 // constant value / extract low bit
	a, b *Term
	d    *Term
	kids []*Term // for opUF
	name string  // opVar, opUF
	id   int32
	sv    *Term // the single variable this term depends on (nil if none or several)
	multi bool  // depends on more than one variable, or on an uninterpreted function
	uf    bool   // contains an uninterpreted function application
	sh    uint64 // structural hash, independent of term ids (same across engines)
}

type termKey struct {
	op      Op
	w       uint8
	c       uint64
	a, b, d int32
	name    string
}

// TermStore hash-conses terms. One per worker (not thread safe).
type TermStore struct {
	tab    map[termKey]*Term
	consts map[uint64]*Term // key: w<<... handled separately
	nextID int32
	vars   []*Term
	varByN map[string]*Term
	tru    *Term
	fls    *Term
	ufs    map[string]*ufDecl
}

type ufDecl struct {
	name  string
	argW  []uint8
	resW  uint8
	apps  []*Term
}

func newTermStore() *TermStore {
	ts := &TermStore{tab: map[termKey]*Term{}, consts: map[uint64]*Term{}, varByN: map[string]*Term{}, ufs: map[string]*ufDecl{}}
	ts.tru = ts.mk(termKey{op: opConst, w: 0, c: 1}, nil, nil, nil)
	ts.fls = ts.mk(termKey{op: opConst, w: 0, c: 0}, nil, nil, nil)
	return ts
}

func tid(t *Term) int32 {
	if t == nil {
		return -1
	}
	return t.id
}

func (ts *TermStore) mk(k termKey, a, b, d *Term) *Term {
	if t, ok := ts.tab[k]; ok {
		return t
	}
	ts.nextID++
	t := &Term{op: k.op, w: k.w, c: k.c, a: a, b: b, d: d, name: k.name, id: ts.nextID}
	t.sh = structHash(k.op, k.w, k.c, k.name, a, b, d)
	if k.op == opVar {
		t.sv = t
	} else {
		for _, kid := range [3]*Term{a, b, d} {
			if kid == nil {
				continue
			}
			if kid.uf {
				t.uf = true
			}
			if kid.multi {
				t.multi = true
			} else if kid.sv != nil {
				if t.sv == nil {
					t.sv = kid.sv
				} else if t.sv != kid.sv {
					t.multi = true
				}
			}
		}
		if t.multi {
			t.sv = nil
		}
	}
	ts.tab[k] = t
	return t
}

func mask(w uint8) uint64 {
	if w >= 64 {
		return ^uint64(0)
	}
	return (uint64(1) << w) - 1
}

func (ts *TermStore) Const(w uint8, v uint64) *Term {
	v &= mask(w)
	if w == 0 {
		if v != 0 {
			return ts.tru
		}
		return ts.fls
	}
	return ts.mk(termKey{op: opConst, w: w, c: v}, nil, nil, nil)
}

func (ts *TermStore) Bool(b bool) *Term {
	if b {
		return ts.tru
	}
	return ts.fls
}

func (ts *TermStore) Var(name string, w uint8) *Term {
	if t, ok := ts.varByN[name]; ok {
		if t.w != w {
			panic("var redeclared with different width: " + name)
		}
		return t
	}
	t := ts.mk(termKey{op: opVar, w: w, name: name}, nil, nil, nil)
	ts.varByN[name] = t
	ts.vars = append(ts.vars, t)
	return t
}

func (t *Term) IsConst() bool { return t.op == opConst }
func (t *Term) IsTrue() bool  { return t.op == opConst && t.w == 0 && t.c == 1 }
func (t *Term) IsFalse() bool { return t.op == opConst && t.w == 0 && t.c == 0 }

func sext(v uint64, w uint8) int64 {
	if w >= 64 {
		return int64(v)
	}
	sh := 64 - uint(w)
	return int64(v<<sh) >> sh
}

// evalOp computes a binary bv op on constants.
func evalBin(op Op, w uint8, x, y uint64) uint64 {
	m := mask(w)
	x &= m
	y &= m
	switch op {
	case opAdd:
		return (x + y) & m
	case opSub:
		return (x - y) & m
	case opMul:
		return (x * y) & m
	case opUDiv:
		if y == 0 {
			return m
		}
		return x / y
	case opURem:
		if y == 0 {
			return x
		}
		return x % y
	case opSDiv:
		sx, sy := sext(x, w), sext(y, w)
		if sy == 0 {
			if sx < 0 {
				return 1
			}
			return m
		}
		if sy == -1 {
			return uint64(-sx) & m
		}
		return uint64(sx/sy) & m
	case opSRem:
		sx, sy := sext(x, w), sext(y, w)
		if sy == 0 {
			return x
		}
		if sy == -1 {
			return 0
		}
		return uint64(sx%sy) & m
	case opAnd:
		return x & y
	case opOr:
		return x | y
	case opXor:
		return x ^ y
	case opShl:
		if y >= uint64(w) {
			return 0
		}
		return (x << y) & m
	case opLShr:
		if y >= uint64(w) {
			return 0
		}
		return x >> y
	case opAShr:
		sx := sext(x, w)
		if y >= uint64(w) {
			if sx < 0 {
				return m
			}
			return 0
		}
		return uint64(sx>>y) & m
	}
	panic("evalBin")
}

func evalCmp(op Op, w uint8, x, y uint64) bool {
	m := mask(w)
	x &= m
	y &= m
	switch op {
	case opEq:
		return x == y
	case opULt:
		return x < y
	case opULe:
		return x <= y
	case opSLt:
		return sext(x, w) < sext(y, w)
	case opSLe:
		return sext(x, w) <= sext(y, w)
	}
	panic("evalCmp")
}

// Bin builds a bit-vector binary operation.
func (ts *TermStore) Bin(op Op, x, y *Term) *Term {
	if x.w != y.w {
		panic(fmt.Sprintf("Bin %v: width mismatch %d vs %d", opNames[op], x.w, y.w))
	}
	w := x.w
	if x.IsConst() && y.IsConst() {
		return ts.Const(w, evalBin(op, w, x.c, y.c))
	}
	// light algebraic simplification
	switch op {
	case opAdd, opOr, opXor:
		if x.IsConst() && x.c == 0 {
			return y
		}
		if y.IsConst() && y.c == 0 {
			return x
		}
	case opSub, opShl, opLShr, opAShr:
		if y.IsConst() && y.c == 0 {
			return x
		}
	case opAnd:
		if x.IsConst() && x.c == 0 || y.IsConst() && y.c == 0 {
			return ts.Const(w, 0)
		}
		if x.IsConst() && x.c == mask(w) {
			return y
		}
		if y.IsConst() && y.c == mask(w) {
			return x
		}
	case opMul:
		if x.IsConst() && x.c == 1 {
			return y
		}
		if y.IsConst() && y.c == 1 {
			return x
		}
		if x.IsConst() && x.c == 0 || y.IsConst() && y.c == 0 {
			return ts.Const(w, 0)
		}
	}
	// commutative canonical order: constant to the right
	switch op {
	case opAdd, opMul, opAnd, opOr, opXor:
		if x.IsConst() || (!y.IsConst() && x.id > y.id) {
			x, y = y, x
		}
	}
	return ts.mk(termKey{op: op, w: w, a: x.id, b: y.id}, x, y, nil)
}

func (ts *TermStore) Un(op Op, x *Term) *Term {
	switch op {
	case opNot:
		if x.IsConst() {
			return ts.Const(x.w, ^x.c)
		}
	case opNeg:
		if x.IsConst() {
			return ts.Const(x.w, -x.c)
		}
	default:
		panic("Un")
	}
	return ts.mk(termKey{op: op, w: x.w, a: x.id}, x, nil, nil)
}

// Cmp builds a comparison yielding Bool.
func (ts *TermStore) Cmp(op Op, x, y *Term) *Term {
	if x.w != y.w {
		panic(fmt.Sprintf("Cmp %v: width mismatch %d vs %d", opNames[op], x.w, y.w))
	}
	if x.w == 0 {
		if op != opEq {
			panic("Cmp on bool")
		}
		return ts.BEq(x, y)
	}
	if x.IsConst() && y.IsConst() {
		return ts.Bool(evalCmp(op, x.w, x.c, y.c))
	}
	if x == y {
		switch op {
		case opEq, opULe, opSLe:
			return ts.tru
		default:
			return ts.fls
		}
	}
	if op == opEq {
		if x.IsConst() {
			x, y = y, x
		}
		// (zext a) == c  →  a == c' or false
		if y.IsConst() && (x.op == opZExt) {
			if y.c > mask(x.a.w) {
				return ts.fls
			}
			return ts.Cmp(opEq, x.a, ts.Const(x.a.w, y.c))
		}
		if y.IsConst() && x.op == opIte && x.b.IsConst() && x.d.IsConst() {
			// ite(c, k1, k2) == k
			e1, e2 := x.b.c == y.c, x.d.c == y.c
			switch {
			case e1 && e2:
				return ts.tru
			case e1:
				return x.a
			case e2:
				return ts.BNot(x.a)
			default:
				return ts.fls
			}
		}
		if !y.IsConst() && x.id > y.id {
			x, y = y, x
		}
	}
	// unsigned compare of zext against constant
	if (op == opULt || op == opULe) && x.op == opZExt && y.IsConst() {
		m := mask(x.a.w)
		if y.c > m {
			return ts.tru
		}
		return ts.Cmp(op, x.a, ts.Const(x.a.w, y.c))
	}
	if (op == opULt || op == opULe) && y.op == opZExt && x.IsConst() {
		m := mask(y.a.w)
		if x.c > m {
			return ts.fls
		}
		return ts.Cmp(op, ts.Const(y.a.w, x.c), y.a)
	}
	// signed compares of zero-extended (non-negative) values against
	// non-negative constants are unsigned compares
	if (op == opSLt || op == opSLe) && x.op == opZExt && x.a.w < x.w && y.IsConst() {
		if sext(y.c, y.w) < 0 {
			return ts.fls
		}
		uop := opULt
		if op == opSLe {
			uop = opULe
		}
		return ts.Cmp(uop, x, y)
	}
	if (op == opSLt || op == opSLe) && y.op == opZExt && y.a.w < y.w && x.IsConst() {
		if sext(x.c, x.w) < 0 {
			return ts.tru
		}
		uop := opULt
		if op == opSLe {
			uop = opULe
		}
		return ts.Cmp(uop, x, y)
	}
	return ts.mk(termKey{op: op, w: 0, c: uint64(x.w), a: x.id, b: y.id}, x, y, nil)
}

func (ts *TermStore) BNot(x *Term) *Term {
	if x.IsConst() {
		return ts.Bool(x.c == 0)
	}
	if x.op == opBNot {
		return x.a
	}
	return ts.mk(termKey{op: opBNot, a: x.id}, x, nil, nil)
}

func (ts *TermStore) BAnd(x, y *Term) *Term {
	if x.IsFalse() || y.IsFalse() {
		return ts.fls
	}
	if x.IsTrue() {
		return y
	}
	if y.IsTrue() {
		return x
	}
	if x == y {
		return x
	}
	if x.id > y.id {
		x, y = y, x
	}
	return ts.mk(termKey{op: opBAnd, a: x.id, b: y.id}, x, y, nil)
}

func (ts *TermStore) BOr(x, y *Term) *Term {
	if x.IsTrue() || y.IsTrue() {
		return ts.tru
	}
	if x.IsFalse() {
		return y
	}
	if y.IsFalse() {
		return x
	}
	if x == y {
		return x
	}
	if x.id > y.id {
		x, y = y, x
	}
	return ts.mk(termKey{op: opBOr, a: x.id, b: y.id}, x, y, nil)
}

func (ts *TermStore) BEq(x, y *Term) *Term {
	if x == y {
		return ts.tru
	}
	if x.IsConst() {
		x, y = y, x
	}
	if y.IsConst() {
		if y.c != 0 {
			return x
		}
		return ts.BNot(x)
	}
	if x.id > y.id {
		x, y = y, x
	}
	return ts.mk(termKey{op: opEq, w: 0, c: 0, a: x.id, b: y.id}, x, y, nil)
}

func (ts *TermStore) Ite(c, x, y *Term) *Term {
	if c.IsTrue() {
		return x
	}
	if c.IsFalse() {
		return y
	}
	if x == y {
		return x
	}
	if x.w != y.w {
		panic("Ite width mismatch")
	}
	if x.w == 0 {
		if x.IsTrue() && y.IsFalse() {
			return c
		}
		if x.IsFalse() && y.IsTrue() {
			return ts.BNot(c)
		}
	}
	return ts.mk(termKey{op: opIte, w: x.w, a: c.id, b: x.id, d: y.id}, c, x, y)
}

func (ts *TermStore) Extract(x *Term, lo, w uint8) *Term {
	if lo == 0 && w == x.w {
		return x
	}
	if x.IsConst() {
		return ts.Const(w, x.c>>lo)
	}
	if lo == 0 && (x.op == opZExt || x.op == opSExt) {
		if w == x.a.w {
			return x.a
		}
		if w < x.a.w {
			return ts.Extract(x.a, 0, w)
		}
		if x.op == opZExt {
			return ts.ZExt(x.a, w)
		}
		return ts.SExt(x.a, w)
	}
	return ts.mk(termKey{op: opExtract, w: w, c: uint64(lo), a: x.id}, x, nil, nil)
}

func (ts *TermStore) ZExt(x *Term, w uint8) *Term {
	if w == x.w {
		return x
	}
	if w < x.w {
		return ts.Extract(x, 0, w)
	}
	if x.IsConst() {
		return ts.Const(w, x.c)
	}
	if x.op == opZExt {
		return ts.ZExt(x.a, w)
	}
	return ts.mk(termKey{op: opZExt, w: w, a: x.id}, x, nil, nil)
}

func (ts *TermStore) SExt(x *Term, w uint8) *Term {
	if w == x.w {
		return x
	}
	if w < x.w {
		return ts.Extract(x, 0, w)
	}
	if x.IsConst() {
		return ts.Const(w, uint64(sext(x.c, x.w)))
	}
	if x.op == opZExt && x.a.w < x.w {
		return ts.ZExt(x.a, w)
	}
	return ts.mk(termKey{op: opSExt, w: w, a: x.id}, x, nil, nil)
}

func (ts *TermStore) Concat(hi, lo *Term) *Term {
	w := hi.w + lo.w
	if hi.IsConst() && lo.IsConst() {
		return ts.Const(w, hi.c<<lo.w|lo.c)
	}
	return ts.mk(termKey{op: opConcat, w: w, a: hi.id, b: lo.id}, hi, lo, nil)
}

// UF applies an uninterpreted function.
func (ts *TermStore) UF(name string, resW uint8, args ...*Term) *Term {
	d := ts.ufs[name]
	if d == nil {
		d = &ufDecl{name: name, resW: resW}
		for _, a := range args {
			d.argW = append(d.argW, a.w)
		}
		ts.ufs[name] = d
	}
	var sb strings.Builder
	sb.WriteString(name)
	for _, a := range args {
		fmt.Fprintf(&sb, ",%d", a.id)
	}
	k := termKey{op: opUF, w: resW, name: sb.String()}
	if t, ok := ts.tab[k]; ok {
		return t
	}
	ts.nextID++
	t := &Term{op: opUF, w: resW, name: name, kids: append([]*Term(nil), args...), id: ts.nextID, multi: true, uf: true}
	ts.tab[k] = t
	d.apps = append(d.apps, t)
	return t
}

// ---------- printing ----------

func sortStr(w uint8) string {
	if w == 0 {
		return "Bool"
	}
	return fmt.Sprintf("(_ BitVec %d)", w)
}

func constStr(t *Term) string {
	if t.w == 0 {
		if t.c != 0 {
			return "true"
		}
		return "false"
	}
	if t.w%4 == 0 {
		return fmt.Sprintf("#x%0*x", int(t.w/4), t.c)
	}
	return fmt.Sprintf("(_ bv%d %d)", t.c, t.w)
}

func smtName(s string) string {
	return "|" + strings.NewReplacer("|", "_", "\\", "_").Replace(s) + "|"
}

// ref returns the name used to refer to t inside other terms.
func ref(t *Term) string {
	switch t.op {
	case opConst:
		return constStr(t)
	case opVar:
		return smtName(t.name)
	}
	return fmt.Sprintf("t%d", t.id)
}

// body returns the defining expression of a non-leaf term.
func body(t *Term) string {
	switch t.op {
	case opExtract:
		return fmt.Sprintf("((_ extract %d %d) %s)", uint64(t.w)+t.c-1, t.c, ref(t.a))
	case opZExt:
		return fmt.Sprintf("((_ zero_extend %d) %s)", t.w-t.a.w, ref(t.a))
	case opSExt:
		return fmt.Sprintf("((_ sign_extend %d) %s)", t.w-t.a.w, ref(t.a))
	case opIte:
		return fmt.Sprintf("(ite %s %s %s)", ref(t.a), ref(t.b), ref(t.d))
	case opNot, opNeg, opBNot:
		return fmt.Sprintf("(%s %s)", opNames[t.op], ref(t.a))
	case opUF:
		var sb strings.Builder
		sb.WriteString("(" + smtName(t.name))
		for _, k := range t.kids {
			sb.WriteString(" " + ref(k))
		}
		sb.WriteString(")")
		return sb.String()
	}
	return fmt.Sprintf("(%s %s %s)", opNames[t.op], ref(t.a), ref(t.b))
}

// ---------- evaluation under a model ----------

type Model map[string]uint64

type evaluator struct {
	m     Model
	cache map[int32]uint64
	ufval func(t *Term, args []uint64) uint64
}

func (ev *evaluator) eval(t *Term) uint64 {
	switch t.op {
	case opConst:
		return t.c
	case opVar:
		return ev.m[t.name] & mask1(t.w)
	}
	if v, ok := ev.cache[t.id]; ok {
		return v
	}
	var v uint64
	switch t.op {
	case opAdd, opSub, opMul, opUDiv, opSDiv, opURem, opSRem, opAnd, opOr, opXor, opShl, opLShr, opAShr:
		v = evalBin(t.op, t.w, ev.eval(t.a), ev.eval(t.b))
	case opNot:
		v = ^ev.eval(t.a) & mask(t.w)
	case opNeg:
		v = -ev.eval(t.a) & mask(t.w)
	case opEq:
		if t.a.w == 0 {
			v = b2u(ev.eval(t.a) == ev.eval(t.b))
		} else {
			v = b2u(evalCmp(opEq, t.a.w, ev.eval(t.a), ev.eval(t.b)))
		}
	case opULt, opULe, opSLt, opSLe:
		v = b2u(evalCmp(t.op, t.a.w, ev.eval(t.a), ev.eval(t.b)))
	case opBAnd:
		v = b2u(ev.eval(t.a) != 0 && ev.eval(t.b) != 0)
	case opBOr:
		v = b2u(ev.eval(t.a) != 0 || ev.eval(t.b) != 0)
	case opBNot:
		v = b2u(ev.eval(t.a) == 0)
	case opIte:
		if ev.eval(t.a) != 0 {
			v = ev.eval(t.b)
		} else {
			v = ev.eval(t.d)
		}
	case opExtract:
		v = (ev.eval(t.a) >> t.c) & mask(t.w)
	case opZExt:
		v = ev.eval(t.a)
	case opSExt:
		v = uint64(sext(ev.eval(t.a), t.a.w)) & mask(t.w)
	case opConcat:
		v = ev.eval(t.a)<<t.b.w | ev.eval(t.b)
	case opUF:
		args := make([]uint64, len(t.kids))
		for i, k := range t.kids {
			args[i] = ev.eval(k)
		}
		if ev.ufval == nil {
			panic("UF evaluation without interpretation")
		}
		v = ev.ufval(t, args)
	default:
		panic("eval: op")
	}
	ev.cache[t.id] = v
	return v
}

func mask1(w uint8) uint64 {
	if w == 0 {
		return 1
	}
	return mask(w)
}

func b2u(b bool) uint64 {
	if b {
		return 1
	}
	return 0
}

var _ = bits.Len

// termString renders a term as an s-expression up to the given depth.
func termString(t *Term, depth int) string {
	if t == nil {
		return ""
	}
	switch t.op {
	case opConst:
		return constStr(t)
	case opVar:
		return t.name
	}
	if depth == 0 {
		return fmt.Sprintf("t%d", t.id)
	}
	switch t.op {
	case opExtract:
		return fmt.Sprintf("(extract[%d:%d] %s)", uint64(t.w)+t.c-1, t.c, termString(t.a, depth-1))
	case opZExt:
		return fmt.Sprintf("(zext%d %s)", t.w, termString(t.a, depth-1))
	case opSExt:
		return fmt.Sprintf("(sext%d %s)", t.w, termString(t.a, depth-1))
	case opUF:
		return "(" + t.name + " ...)"
	case opIte:
		return fmt.Sprintf("(ite %s %s %s)", termString(t.a, depth-1), termString(t.b, depth-1), termString(t.d, depth-1))
	case opNot, opNeg, opBNot:
		return fmt.Sprintf("(%s %s)", opNames[t.op], termString(t.a, depth-1))
	}
	return fmt.Sprintf("(%s %s %s)", opNames[t.op], termString(t.a, depth-1), termString(t.b, depth-1))
}

func mix(h, x uint64) uint64 {
	h ^= x + 0x9e3779b97f4a7c15 + (h << 6) + (h >> 2)
	return h * 0xff51afd7ed558ccd
}

func structHash(op Op, w uint8, c uint64, name string, a, b, d *Term) uint64 {
	h := mix(uint64(op)+1, uint64(w))
	h = mix(h, c)
	for i := 0; i < len(name); i++ {
		h = mix(h, uint64(name[i]))
	}
	ha, hb, hd := uint64(1), uint64(2), uint64(3)
	if a != nil {
		ha = a.sh
	}
	if b != nil {
		hb = b.sh
	}
	if d != nil {
		hd = d.sh
	}
	switch op {
	case opAdd, opMul, opAnd, opOr, opXor, opEq, opBAnd, opBOr:
		// commutative: child order depends on term ids
		h = mix(h, ha+hb)
		h = mix(h, ha^hb)
	default:
		h = mix(h, ha)
		h = mix(h, hb)
	}
	return mix(h, hd)
}
