package main

// Solver: one long-lived SMT solver process per worker, driven over a pipe
// with SMT-LIB2 text.  Definitions of shared sub-terms are emitted once per
// path scope as (define-fun tN ...).

import (
	"runtime/debug"
	"bufio"
	"fmt"
	"io"
	"os"
	"os/exec"
	"strconv"
	"strings"
	"sync/atomic"
	"time"
)

var qtrace = os.Getenv("GOSYM_QTRACE") != ""

type SolverKind int

const (
	SolverZ3 SolverKind = iota
	SolverZ3New
	SolverCVC5
	SolverCVC5Int
)

func (k SolverKind) String() string {
	return [...]string{"z3-4.8.12", "z3-5.1.0", "cvc5-1.0", "cvc5-1.0 --solve-bv-as-int=sum"}[k]
}

func parseSolverKind(s string) SolverKind {
	switch s {
	case "z3", "":
		return SolverZ3
	case "z3-new":
		return SolverZ3New
	case "cvc5":
		return SolverCVC5
	case "cvc5-int":
		return SolverCVC5Int
	}
	panic("unknown solver " + s)
}

type SolverStats struct {
	Queries  int64
	Sat      int64
	Unsat    int64
	Unknown  int64
	Errors   int64
	Restarts int64
	WallNS   int64
}

type Solver struct {
	kind      SolverKind
	timeoutMS int
	cmd       *exec.Cmd
	in        io.WriteCloser
	out       *bufio.Reader
	ts        *TermStore
	defined   map[int32]bool // terms defined in current path scope
	declared  map[string]bool
	declUF    map[string]bool
	axiomDone map[string]int // per UF name: number of apps with axioms emitted
	asserted  []*Term        // path-scope assertions (for restart)
	stats     *SolverStats
	sent      int
	logf      *os.File
	dead      bool
	ufAxioms  func(s *Solver, name string, apps []*Term, from int) []*Term
}

func newSolver(kind SolverKind, ts *TermStore, timeoutMS int, stats *SolverStats) *Solver {
	s := &Solver{kind: kind, ts: ts, timeoutMS: timeoutMS, stats: stats}
	s.start()
	return s
}

func (s *Solver) start() {
	var cmd *exec.Cmd
	switch s.kind {
	case SolverZ3:
		cmd = exec.Command("z3", "-in", "-smt2")
	case SolverZ3New:
		cmd = exec.Command("z3-new", "-in", "-smt2")
	case SolverCVC5:
		cmd = exec.Command("cvc5", "--incremental", "--lang=smt2", "--produce-models", fmt.Sprintf("--tlimit-per=%d", s.timeoutMS))
	case SolverCVC5Int:
		cmd = exec.Command("cvc5", "--incremental", "--lang=smt2", "--produce-models", "--solve-bv-as-int=sum", fmt.Sprintf("--tlimit-per=%d", s.timeoutMS))
	}
	in, err := cmd.StdinPipe()
	if err != nil {
		panic(err)
	}
	out, err := cmd.StdoutPipe()
	if err != nil {
		panic(err)
	}
	cmd.Stderr = nil
	if err := cmd.Start(); err != nil {
		panic(fmt.Sprintf("cannot start solver %v: %v", s.kind, err))
	}
	s.cmd, s.in, s.out = cmd, in, bufio.NewReaderSize(out, 1<<16)
	s.dead = false
	switch s.kind {
	case SolverZ3, SolverZ3New:
		s.send(fmt.Sprintf("(set-option :timeout %d)\n(set-option :produce-models true)\n", s.timeoutMS))
	default:
		s.send("(set-logic ALL)\n")
	}
	s.send("(push 1)\n")
	s.defined = map[int32]bool{}
	s.declared = map[string]bool{}
	s.declUF = map[string]bool{}
	s.axiomDone = map[string]int{}
	s.asserted = nil
	s.sent = 0
}

func (s *Solver) send(txt string) {
	if s.logf != nil {
		s.logf.WriteString(txt)
	}
	if _, err := io.WriteString(s.in, txt); err != nil {
		s.dead = true
	}
}

func (s *Solver) Close() {
	if s.cmd != nil {
		s.in.Close()
		s.cmd.Process.Kill()
		s.cmd.Wait()
		s.cmd = nil
	}
}

// readLine reads a line with watchdog.
func (s *Solver) readReply(deadline time.Duration) (string, bool) {
	type res struct {
		line string
		err  error
	}
	ch := make(chan res, 1)
	go func() {
		// read one balanced s-expression or atom line
		var sb strings.Builder
		depth := 0
		for {
			line, err := s.out.ReadString('\n')
			if err != nil {
				ch <- res{sb.String(), err}
				return
			}
			sb.WriteString(line)
			inStr := false
			for i := 0; i < len(line); i++ {
				c := line[i]
				if c == '"' {
					inStr = !inStr
				}
				if inStr {
					continue
				}
				if c == '(' {
					depth++
				} else if c == ')' {
					depth--
				}
			}
			if depth <= 0 && strings.TrimSpace(sb.String()) != "" {
				ch <- res{sb.String(), nil}
				return
			}
		}
	}()
	select {
	case r := <-ch:
		if r.err != nil {
			return r.line, false
		}
		return r.line, true
	case <-time.After(deadline):
		return "", false
	}
}

// NewPath resets the path scope.
func (s *Solver) NewPath() {
	if s.dead || s.cmd == nil {
		s.asserted = s.asserted[:0]
		s.restart()
		return
	}
	if s.sent == 0 && len(s.defined) == 0 && len(s.declared) == 0 {
		// nothing was transmitted on the previous path
		s.asserted = s.asserted[:0]
		return
	}
	s.sent = 0
	s.send("(pop 1)\n(push 1)\n")
	s.defined = map[int32]bool{}
	s.declared = map[string]bool{}
	s.declUF = map[string]bool{}
	s.axiomDone = map[string]int{}
	s.asserted = s.asserted[:0]
}

func (s *Solver) restart() {
	atomic.AddInt64(&s.stats.Restarts, 1)
	old := append([]*Term(nil), s.asserted...)
	s.Close()
	s.start()
	s.asserted = old
	s.sent = 0
}

// define emits declarations/definitions needed by t (post-order).
func (s *Solver) define(t *Term, sb *strings.Builder) {
	switch t.op {
	case opConst:
		return
	case opVar:
		if !s.declared[t.name] {
			s.declared[t.name] = true
			if t.w == 0 {
				fmt.Fprintf(sb, "(declare-const %s Bool)\n", smtName(t.name))
			} else {
				fmt.Fprintf(sb, "(declare-const %s (_ BitVec %d))\n", smtName(t.name), t.w)
			}
		}
		return
	}
	if s.defined[t.id] {
		return
	}
	// iterative post-order to avoid deep recursion on long chains
	type fr struct {
		t *Term
		i int
	}
	stack := []fr{{t, 0}}
	for len(stack) > 0 {
		f := &stack[len(stack)-1]
		kids := kidsOf(f.t)
		if f.i < len(kids) {
			k := kids[f.i]
			f.i++
			if k == nil {
				continue
			}
			switch k.op {
			case opConst:
			case opVar:
				s.define(k, sb)
			default:
				if !s.defined[k.id] {
					stack = append(stack, fr{k, 0})
				}
			}
			continue
		}
		cur := f.t
		stack = stack[:len(stack)-1]
		if s.defined[cur.id] {
			continue
		}
		s.defined[cur.id] = true
		if cur.op == opUF {
			d := s.ts.ufs[cur.name]
			if !s.declUF[cur.name] {
				s.declUF[cur.name] = true
				fmt.Fprintf(sb, "(declare-fun %s (", smtName(cur.name))
				for _, w := range d.argW {
					sb.WriteString(sortStr(w) + " ")
				}
				fmt.Fprintf(sb, ") %s)\n", sortStr(d.resW))
			}
		}
		fmt.Fprintf(sb, "(define-fun t%d () %s %s)\n", cur.id, sortStr(cur.w), body(cur))
	}
}

func kidsOf(t *Term) []*Term {
	if t.op == opUF {
		return t.kids
	}
	return []*Term{t.a, t.b, t.d}
}

// Assert adds t to the path scope.
func (s *Solver) Assert(t *Term) {
	s.asserted = append(s.asserted, t)
}

// flush sends assertions not yet transmitted.
func (s *Solver) flush() {
	for ; s.sent < len(s.asserted); s.sent++ {
		s.assertNow(s.asserted[s.sent])
	}
}

func (s *Solver) assertNow(t *Term) {
	var sb strings.Builder
	s.define(t, &sb)
	fmt.Fprintf(&sb, "(assert %s)\n", ref(t))
	s.send(sb.String())
}

type Verdict int

const (
	Sat Verdict = iota
	Unsat
	Unknown
)

func (v Verdict) String() string { return [...]string{"sat", "unsat", "unknown"}[v] }

// Check decides path-scope ∧ extra.  If sat and wantModel, returns the model
// over all declared variables (and UF applications, keyed "#<id>").
func (s *Solver) Check(extra *Term, wantModel bool) (Verdict, Model) {
	t0 := time.Now()
	defer func() { atomic.AddInt64(&s.stats.WallNS, int64(time.Since(t0))) }()
	atomic.AddInt64(&s.stats.Queries, 1)
	if qtrace {
		fmt.Fprintf(os.Stderr, "QUERY from:\n%s\n", debug.Stack())
	}
	if s.dead {
		s.restart()
	}
	s.flush()
	var sb strings.Builder
	if extra != nil {
		s.define(extra, &sb)
	}
	sb.WriteString("(push 1)\n")
	if extra != nil {
		fmt.Fprintf(&sb, "(assert %s)\n", ref(extra))
	}
	sb.WriteString("(check-sat)\n")
	s.send(sb.String())
	reply, ok := s.readReply(time.Duration(s.timeoutMS)*time.Millisecond*2 + 5*time.Second)
	if !ok {
		// watchdog: kill and restart
		atomic.AddInt64(&s.stats.Unknown, 1)
		s.dead = true
		s.restart()
		return Unknown, nil
	}
	reply = strings.TrimSpace(reply)
	var v Verdict
	switch {
	case reply == "sat":
		v = Sat
	case reply == "unsat":
		v = Unsat
	case reply == "unknown" || strings.HasPrefix(reply, "timeout"):
		v = Unknown
	default:
		// (error ...) or anything else: inconclusive
		atomic.AddInt64(&s.stats.Errors, 1)
		fmt.Fprintf(os.Stderr, "solver reply: %q\n", reply)
		s.dead = true
		s.restart()
		atomic.AddInt64(&s.stats.Unknown, 1)
		return Unknown, nil
	}
	var m Model
	if v == Sat && wantModel {
		m = s.getModel()
		if m == nil {
			v = Unknown
		}
	}
	s.send("(pop 1)\n")
	switch v {
	case Sat:
		atomic.AddInt64(&s.stats.Sat, 1)
	case Unsat:
		atomic.AddInt64(&s.stats.Unsat, 1)
	default:
		atomic.AddInt64(&s.stats.Unknown, 1)
	}
	return v, m
}

func (s *Solver) getModel() Model {
	m := Model{}
	var names []string
	for n := range s.declared {
		names = append(names, smtName(n))
	}
	var ufIDs []int32
	for _, d := range s.ts.ufs {
		for _, app := range d.apps {
			if s.defined[app.id] {
				names = append(names, fmt.Sprintf("t%d", app.id))
				ufIDs = append(ufIDs, app.id)
			}
		}
	}
	if len(names) == 0 {
		return m
	}
	s.send("(get-value (" + strings.Join(names, " ") + "))\n")
	reply, ok := s.readReply(10 * time.Second)
	if !ok {
		s.dead = true
		return nil
	}
	if strings.Contains(reply, "(error") {
		atomic.AddInt64(&s.stats.Errors, 1)
		fmt.Fprintf(os.Stderr, "solver get-value reply: %q\n", reply)
		return nil
	}
	parseValues(reply, m)
	return m
}

// parseValues parses ((name value) ...) where value is #x.., #b.., true/false or (_ bvN W).
func parseValues(reply string, m Model) {
	toks := tokenize(reply)
	// expect ( ( name val ) ( name val ) ... )
	i := 0
	if i < len(toks) && toks[i] == "(" {
		i++
	}
	for i < len(toks) {
		if toks[i] != "(" {
			i++
			continue
		}
		i++
		if i >= len(toks) {
			break
		}
		name := toks[i]
		i++
		var val uint64
		if i < len(toks) && toks[i] == "(" {
			// (_ bvN W)
			i++
			if i+1 < len(toks) && toks[i] == "_" {
				v := strings.TrimPrefix(toks[i+1], "bv")
				val, _ = strconv.ParseUint(v, 10, 64)
			}
			for i < len(toks) && toks[i] != ")" {
				i++
			}
			i++
		} else if i < len(toks) {
			tk := toks[i]
			i++
			switch {
			case tk == "true":
				val = 1
			case tk == "false":
				val = 0
			case strings.HasPrefix(tk, "#x"):
				val, _ = strconv.ParseUint(tk[2:], 16, 64)
			case strings.HasPrefix(tk, "#b"):
				val, _ = strconv.ParseUint(tk[2:], 2, 64)
			}
		}
		for i < len(toks) && toks[i] != ")" {
			i++
		}
		i++
		if strings.HasPrefix(name, "|") {
			name = strings.Trim(name, "|")
		} else if strings.HasPrefix(name, "t") {
			name = "#" + name[1:]
		}
		m[name] = val
	}
}

func tokenize(s string) []string {
	var toks []string
	i := 0
	for i < len(s) {
		c := s[i]
		switch {
		case c == '(' || c == ')':
			toks = append(toks, string(c))
			i++
		case c == ' ' || c == '\n' || c == '\t' || c == '\r':
			i++
		case c == '|':
			j := i + 1
			for j < len(s) && s[j] != '|' {
				j++
			}
			toks = append(toks, s[i:j+1])
			i = j + 1
		default:
			j := i
			for j < len(s) && !strings.ContainsRune("() \n\t\r", rune(s[j])) {
				j++
			}
			toks = append(toks, s[i:j])
			i = j
		}
	}
	return toks
}
