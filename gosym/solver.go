package main

// Solver: one long-lived SMT solver process per worker, driven over a pipe
// with SMT-LIB2 text.  Definitions of shared sub-terms are emitted once per
// path scope as (define-fun tN ...).

import (
	"bufio"
	"fmt"
	"io"
	"os"
	"os/exec"
	"strconv"
	"strings"
	"sync/atomic"
	"time"
)

var qtrace = os.Getenv("GOSYM_QTRACE") != ""

type SolverKind int

const (
	SolverZ3 SolverKind = iota
	SolverZ3New
	SolverCVC5
	SolverCVC5Int
)

func (k SolverKind) String() string {
	return [...]string{"z3-4.8.12", "z3-5.1.0", "cvc5-1.0", "cvc5-1.0 --solve-bv-as-int=sum"}[k]
}

func parseSolverKind(s string) SolverKind {
	switch s {
	case "z3-old":
		return SolverZ3
	case "z3-new", "z3", "":
		return SolverZ3New
	case "cvc5":
		return SolverCVC5
	case "cvc5-int":
		return SolverCVC5Int
	}
	panic("unknown solver " + s)
}

type SolverStats struct {
	Queries  int64
	Sat      int64
	Unsat    int64
	Unknown  int64
	Errors   int64
	Restarts int64
	Retries  int64
	WallNS   int64
}

type Solver struct {
	kind      SolverKind
	timeoutMS int
	cmd       *exec.Cmd
	in        io.WriteCloser
	out       *bufio.Reader
	ts        *TermStore
	defined   map[int32]bool // terms defined in current path scope
	declared  map[string]bool
	declUF    map[string]bool
	axiomDone map[string]int // per UF name: number of apps with axioms emitted
	asserted  []*Term        // path-scope assertions (for restart)
	stats     *SolverStats
	sent      int
	logf      *os.File
	dead      bool
	ufAxioms  func(s *Solver, name string, apps []*Term, from int) []*Term
}

func newSolver(kind SolverKind, ts *TermStore, timeoutMS int, stats *SolverStats) *Solver {
	s := &Solver{kind: kind, ts: ts, timeoutMS: timeoutMS, stats: stats}
	s.start()
	return s
}

func (s *Solver) start() {
	var cmd *exec.Cmd
	switch s.kind {
	case SolverZ3:
		cmd = exec.Command("z3", "-in", "-smt2")
	case SolverZ3New:
		cmd = exec.Command("z3-new", "-in", "-smt2")
	case SolverCVC5:
		cmd = exec.Command("cvc5", "--incremental", "--lang=smt2", "--produce-models", fmt.Sprintf("--tlimit-per=%d", s.timeoutMS))
	case SolverCVC5Int:
		cmd = exec.Command("cvc5", "--incremental", "--lang=smt2", "--produce-models", "--solve-bv-as-int=sum", fmt.Sprintf("--tlimit-per=%d", s.timeoutMS))
	}
	in, err := cmd.StdinPipe()
	if err != nil {
		panic(err)
	}
	out, err := cmd.StdoutPipe()
	if err != nil {
		panic(err)
	}
	cmd.Stderr = nil
	if err := cmd.Start(); err != nil {
		panic(fmt.Sprintf("cannot start solver %v: %v", s.kind, err))
	}
	s.cmd, s.in, s.out = cmd, in, bufio.NewReaderSize(out, 1<<16)
	if d := os.Getenv("GOSYM_SMTLOG"); d != "" {
		n := atomic.AddInt64(&dumpN, 1)
		s.logf, _ = os.Create(fmt.Sprintf("%s/session%d.smt2", d, n))
	}
	s.dead = false
	switch s.kind {
	case SolverZ3, SolverZ3New:
		s.send(fmt.Sprintf("(set-option :timeout %d)\n(set-option :produce-models true)\n", s.timeoutMS))
	default:
		s.send("(set-logic ALL)\n")
	}
	s.defined = map[int32]bool{}
	s.declared = map[string]bool{}
	s.declUF = map[string]bool{}
	s.axiomDone = map[string]int{}
	s.asserted = nil
	s.sent = 0
}

func (s *Solver) send(txt string) {
	if s.logf != nil {
		s.logf.WriteString(txt)
	}
	if _, err := io.WriteString(s.in, txt); err != nil {
		s.dead = true
	}
}

func (s *Solver) Close() {
	if s.cmd != nil {
		s.in.Close()
		s.cmd.Process.Kill()
		s.cmd.Wait()
		s.cmd = nil
	}
}

// readLine reads a line with watchdog.
func (s *Solver) readReply(deadline time.Duration) (string, bool) {
	type res struct {
		line string
		err  error
	}
	ch := make(chan res, 1)
	go func() {
		// read one balanced s-expression or atom line
		var sb strings.Builder
		depth := 0
		for {
			line, err := s.out.ReadString('\n')
			if err != nil {
				ch <- res{sb.String(), err}
				return
			}
			sb.WriteString(line)
			inStr := false
			for i := 0; i < len(line); i++ {
				c := line[i]
				if c == '"' {
					inStr = !inStr
				}
				if inStr {
					continue
				}
				if c == '(' {
					depth++
				} else if c == ')' {
					depth--
				}
			}
			if depth <= 0 && strings.TrimSpace(sb.String()) != "" {
				ch <- res{sb.String(), nil}
				return
			}
		}
	}()
	select {
	case r := <-ch:
		if r.err != nil {
			return r.line, false
		}
		return r.line, true
	case <-time.After(deadline):
		return "", false
	}
}

// NewPath: nothing to do — definitions are global, assertions per query.
func (s *Solver) NewPath() {}

func (s *Solver) restart() {
	atomic.AddInt64(&s.stats.Restarts, 1)
	s.Close()
	s.start()
}

// define emits declarations/definitions needed by t (post-order).
func (s *Solver) define(t *Term, sb *strings.Builder) {
	switch t.op {
	case opConst:
		return
	case opVar:
		if !s.declared[t.name] {
			s.declared[t.name] = true
			if t.w == 0 {
				fmt.Fprintf(sb, "(declare-const %s Bool)\n", smtName(t.name))
			} else {
				fmt.Fprintf(sb, "(declare-const %s (_ BitVec %d))\n", smtName(t.name), t.w)
			}
		}
		return
	}
	if s.defined[t.id] {
		return
	}
	// iterative post-order to avoid deep recursion on long chains
	type fr struct {
		t *Term
		i int
	}
	stack := []fr{{t, 0}}
	for len(stack) > 0 {
		f := &stack[len(stack)-1]
		kids := kidsOf(f.t)
		if f.i < len(kids) {
			k := kids[f.i]
			f.i++
			if k == nil {
				continue
			}
			switch k.op {
			case opConst:
			case opVar:
				s.define(k, sb)
			default:
				if !s.defined[k.id] {
					stack = append(stack, fr{k, 0})
				}
			}
			continue
		}
		cur := f.t
		stack = stack[:len(stack)-1]
		if s.defined[cur.id] {
			continue
		}
		s.defined[cur.id] = true
		if cur.op == opUF {
			d := s.ts.ufs[cur.name]
			if !s.declUF[cur.name] {
				s.declUF[cur.name] = true
				fmt.Fprintf(sb, "(declare-fun %s (", smtName(cur.name))
				for _, w := range d.argW {
					sb.WriteString(sortStr(w) + " ")
				}
				fmt.Fprintf(sb, ") %s)\n", sortStr(d.resW))
			}
		}
		fmt.Fprintf(sb, "(define-fun t%d () %s %s)\n", cur.id, sortStr(cur.w), body(cur))
	}
}

func kidsOf(t *Term) []*Term {
	if t.op == opUF {
		return t.kids
	}
	return []*Term{t.a, t.b, t.d}
}

var dumpDir = os.Getenv("GOSYM_DUMP")
var dumpN int64

// dumpQuery writes a standalone SMT-LIB2 file for the conjunction.
func (s *Solver) dumpQuery(conj []*Term) {
	saveDef, saveDecl, saveUF := s.defined, s.declared, s.declUF
	s.defined, s.declared, s.declUF = map[int32]bool{}, map[string]bool{}, map[string]bool{}
	var sb strings.Builder
	for _, c := range conj {
		s.define(c, &sb)
	}
	for _, c := range conj {
		fmt.Fprintf(&sb, "(assert %s)\n", ref(c))
	}
	sb.WriteString("(check-sat)\n")
	s.defined, s.declared, s.declUF = saveDef, saveDecl, saveUF
	n := atomic.AddInt64(&dumpN, 1)
	os.WriteFile(fmt.Sprintf("%s/q%d.smt2", dumpDir, n), []byte(sb.String()), 0o644)
}

// standalone renders the query as a self-contained SMT-LIB2 script.
func (s *Solver) standalone(conj []*Term, need map[int32]bool) (string, []string) {
	saveDef, saveDecl, saveUF := s.defined, s.declared, s.declUF
	s.defined, s.declared, s.declUF = map[int32]bool{}, map[string]bool{}, map[string]bool{}
	var sb strings.Builder
	sb.WriteString("(set-option :produce-models true)\n(set-logic ALL)\n")
	for _, c := range conj {
		s.define(c, &sb)
	}
	for _, c := range conj {
		fmt.Fprintf(&sb, "(assert %s)\n", ref(c))
	}
	sb.WriteString("(check-sat)\n")
	var names []string
	for _, v := range s.ts.vars {
		if need[v.id] && s.declared[v.name] {
			names = append(names, smtName(v.name))
		}
	}
	for id := range s.defined {
		_ = id
	}
	s.defined, s.declared, s.declUF = saveDef, saveDecl, saveUF
	return sb.String(), names
}

// oneShot runs the query in fresh solver processes (z3 5.1.0, then cvc5).
func (s *Solver) oneShot(conj []*Term, need map[int32]bool) (Verdict, Model) {
	atomic.AddInt64(&s.stats.Retries, 1)
	txt, names := s.standalone(conj, need)
	// uninterpreted applications cannot be read back this way: keep unknown for models
	hasUF := false
	for _, c := range conj {
		if c.multi && containsUF(c, map[int32]bool{}) {
			hasUF = true
			break
		}
	}
	f, err := os.CreateTemp("", "gosym-q*.smt2")
	if err != nil {
		return Unknown, nil
	}
	defer os.Remove(f.Name())
	f.WriteString(txt)
	f.Close()
	sec := s.timeoutMS/1000 + 1
	for _, argv := range [][]string{{"z3-new", fmt.Sprintf("-T:%d", sec), f.Name()}, {"cvc5", fmt.Sprintf("--tlimit=%d", s.timeoutMS), f.Name()}} {
		out, _ := exec.Command(argv[0], argv[1:]...).Output()
		first := strings.TrimSpace(strings.SplitN(string(out), "\n", 2)[0])
		switch first {
		case "unsat":
			return Unsat, nil
		case "sat":
			if hasUF {
				continue
			}
			// second run with get-value
			if len(names) == 0 {
				return Sat, Model{}
			}
			g, _ := os.CreateTemp("", "gosym-g*.smt2")
			g.WriteString(txt + "(get-value (" + strings.Join(names, " ") + "))\n")
			g.Close()
			argv2 := append(append([]string{}, argv[:len(argv)-1]...), g.Name())
			out2, _ := exec.Command(argv2[0], argv2[1:]...).Output()
			os.Remove(g.Name())
			parts := strings.SplitN(string(out2), "\n", 2)
			if len(parts) == 2 && strings.TrimSpace(parts[0]) == "sat" && !strings.Contains(parts[1], "(error") {
				m := Model{}
				parseValues(parts[1], m)
				return Sat, m
			}
		}
	}
	return Unknown, nil
}

func containsUF(t *Term, seen map[int32]bool) bool {
	if t == nil || seen[t.id] || !t.multi {
		return false
	}
	seen[t.id] = true
	if t.op == opUF {
		return true
	}
	return containsUF(t.a, seen) || containsUF(t.b, seen) || containsUF(t.d, seen)
}

type Verdict int

const (
	Sat Verdict = iota
	Unsat
	Unknown
)

func (v Verdict) String() string { return [...]string{"sat", "unsat", "unknown"}[v] }

// CheckSet decides the conjunction of conj.  Definitions of sub-terms are
// global for the life of the solver process (terms are immutable), assertions
// live inside one push/pop.  If sat, returns values of the variables whose ids
// are in need (and of the uninterpreted applications defined so far).
func (s *Solver) CheckSet(conj []*Term, need map[int32]bool) (Verdict, Model) {
	t0 := time.Now()
	defer func() { atomic.AddInt64(&s.stats.WallNS, int64(time.Since(t0))) }()
	atomic.AddInt64(&s.stats.Queries, 1)

	if s.dead || s.cmd == nil || len(s.defined) > 60000 {
		s.restart()
	}
	var sb strings.Builder
	for _, c := range conj {
		s.define(c, &sb)
	}
	sb.WriteString("(push 1)\n")
	for _, c := range conj {
		fmt.Fprintf(&sb, "(assert %s)\n", ref(c))
	}
	sb.WriteString("(check-sat)\n")
	s.send(sb.String())
	reply, ok := s.readReply(time.Duration(s.timeoutMS)*time.Millisecond*2 + 5*time.Second)
	if !ok {
		s.dead = true
		s.restart()
		v, m := s.oneShot(conj, need)
		switch v {
		case Sat:
			atomic.AddInt64(&s.stats.Sat, 1)
		case Unsat:
			atomic.AddInt64(&s.stats.Unsat, 1)
		default:
			atomic.AddInt64(&s.stats.Unknown, 1)
		}
		return v, m
	}
	reply = strings.TrimSpace(reply)
	var v Verdict
	switch {
	case reply == "sat":
		v = Sat
	case reply == "unsat":
		v = Unsat
	case reply == "unknown" || strings.HasPrefix(reply, "timeout"):
		v = Unknown
	default:
		atomic.AddInt64(&s.stats.Errors, 1)
		fmt.Fprintf(os.Stderr, "solver reply: %q\n", reply)
		s.dead = true
		s.restart()
		atomic.AddInt64(&s.stats.Unknown, 1)
		return Unknown, nil
	}
	var m Model
	if v == Sat {
		m = s.getModel(conj, need)
		if m == nil {
			v = Unknown
		}
	}
	s.send("(pop 1)\n")
	if v == Unknown {
		// portfolio fallback: the same query, stand-alone, in a fresh process
		v, m = s.oneShot(conj, need)
	}
	if v == Unknown && dumpDir != "" {
		s.dumpQuery(conj)
	}
	switch v {
	case Sat:
		atomic.AddInt64(&s.stats.Sat, 1)
	case Unsat:
		atomic.AddInt64(&s.stats.Unsat, 1)
	default:
		atomic.AddInt64(&s.stats.Unknown, 1)
	}
	return v, m
}

func (s *Solver) getModel(conj []*Term, need map[int32]bool) Model {
	m := Model{}
	var names []string
	for _, v := range s.ts.vars {
		if need[v.id] && s.declared[v.name] {
			names = append(names, smtName(v.name))
		}
	}
	// uninterpreted applications occurring in the slice
	seen := map[int32]bool{}
	var walk func(t *Term)
	walk = func(t *Term) {
		if t == nil || seen[t.id] || !t.multi {
			return
		}
		seen[t.id] = true
		if t.op == opUF {
			names = append(names, fmt.Sprintf("t%d", t.id))
			for _, k := range t.kids {
				walk(k)
			}
			return
		}
		walk(t.a)
		walk(t.b)
		walk(t.d)
	}
	for _, c := range conj {
		walk(c)
	}
	if len(names) == 0 {
		return m
	}
	s.send("(get-value (" + strings.Join(names, " ") + "))\n")
	reply, ok := s.readReply(10 * time.Second)
	if !ok {
		fmt.Fprintf(os.Stderr, "get-value timed out; names=%v partial reply=%q\n", names, reply)
		s.dead = true
		return nil
	}
	if strings.Contains(reply, "(error") {
		atomic.AddInt64(&s.stats.Errors, 1)
		fmt.Fprintf(os.Stderr, "solver get-value reply: %q\n", reply)
		return nil
	}
	parseValues(reply, m)
	return m
}

// parseValues parses ((name value) ...) where value is #x.., #b.., true/false or (_ bvN W).
func parseValues(reply string, m Model) {
	toks := tokenize(reply)
	// expect ( ( name val ) ( name val ) ... )
	i := 0
	if i < len(toks) && toks[i] == "(" {
		i++
	}
	for i < len(toks) {
		if toks[i] != "(" {
			i++
			continue
		}
		i++
		if i >= len(toks) {
			break
		}
		name := toks[i]
		i++
		var val uint64
		if i < len(toks) && toks[i] == "(" {
			// (_ bvN W)
			i++
			if i+1 < len(toks) && toks[i] == "_" {
				v := strings.TrimPrefix(toks[i+1], "bv")
				val, _ = strconv.ParseUint(v, 10, 64)
			}
			for i < len(toks) && toks[i] != ")" {
				i++
			}
			i++
		} else if i < len(toks) {
			tk := toks[i]
			i++
			switch {
			case tk == "true":
				val = 1
			case tk == "false":
				val = 0
			case strings.HasPrefix(tk, "#x"):
				val, _ = strconv.ParseUint(tk[2:], 16, 64)
			case strings.HasPrefix(tk, "#b"):
				val, _ = strconv.ParseUint(tk[2:], 2, 64)
			}
		}
		for i < len(toks) && toks[i] != ")" {
			i++
		}
		i++
		if strings.HasPrefix(name, "|") {
			name = strings.Trim(name, "|")
		} else if strings.HasPrefix(name, "t") {
			name = "#" + name[1:]
		}
		m[name] = val
	}
}

func tokenize(s string) []string {
	var toks []string
	i := 0
	for i < len(s) {
		c := s[i]
		switch {
		case c == '(' || c == ')':
			toks = append(toks, string(c))
			i++
		case c == ' ' || c == '\n' || c == '\t' || c == '\r':
			i++
		case c == '|':
			j := i + 1
			for j < len(s) && s[j] != '|' {
				j++
			}
			toks = append(toks, s[i:j+1])
			i = j + 1
		default:
			j := i
			for j < len(s) && !strings.ContainsRune("() \n\t\r", rune(s[j])) {
				j++
			}
			toks = append(toks, s[i:j])
			i = j
		}
	}
	return toks
}
