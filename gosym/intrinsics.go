package main

// Intrinsics: exact re-implementations of functions that have no Go body
// (assembly, runtime, linkname) or that use reflection/unsafe in ways the
// interpreter does not model; and nondeterministic stubs for the environment.

import (
	"fmt"
	"go/types"
	"math"

	"golang.org/x/tools/go/ssa"
)

type intrinsic func(e *Engine, fr *frame, args []Value) Value

// HostFunc is a callable value implemented by the engine.
type HostFunc func(e *Engine, args []Value) Value

func (e *Engine) c64(v int64) *Term { return e.ts.Const(64, uint64(v)) }

func sliceBytes(e *Engine, v Value) []*Term {
	sl := v.(Slice)
	out := make([]*Term, len(sl))
	for i := range sl {
		out[i] = sl[i].(*Term)
	}
	return out
}

// indexByteTerms returns the index of the first byte equal to c, or -1.
// Forks per position (each position is one decision).
func (e *Engine) indexByte(bs []*Term, c *Term) Value {
	for i, b := range bs {
		if e.decide(e.ts.Cmp(opEq, b, c)) {
			return e.c64(int64(i))
		}
	}
	return e.c64(-1)
}

func (e *Engine) indexSub(hay, needle []*Term) Value {
	n := len(needle)
	if n == 0 {
		return e.c64(0)
	}
	for i := 0; i+n <= len(hay); i++ {
		eq := e.ts.tru
		for j := n - 1; j >= 0; j-- {
			eq = e.ts.BAnd(e.ts.Cmp(opEq, hay[i+j], needle[j]), eq)
		}
		if e.decide(eq) {
			return e.c64(int64(i))
		}
	}
	return e.c64(-1)
}

func (e *Engine) compareBytes(a, b []*Term) Value {
	n := len(a)
	if len(b) < n {
		n = len(b)
	}
	for i := 0; i < n; i++ {
		if e.decide(e.ts.Cmp(opEq, a[i], b[i])) {
			continue
		}
		if e.decide(e.ts.Cmp(opULt, a[i], b[i])) {
			return e.c64(-1)
		}
		return e.c64(1)
	}
	switch {
	case len(a) < len(b):
		return e.c64(-1)
	case len(a) > len(b):
		return e.c64(1)
	}
	return e.c64(0)
}

func (e *Engine) countByte(bs []*Term, c *Term) Value {
	cnt := e.ts.Const(64, 0)
	for _, b := range bs {
		cnt = e.ts.Bin(opAdd, cnt, e.ts.Ite(e.ts.Cmp(opEq, b, c), e.ts.Const(64, 1), e.ts.Const(64, 0)))
	}
	return cnt
}

func (e *Engine) strOf(v Value) Str { return v.(Str) }

func (e *Engine) setupIntrinsics() {
	in := map[string]intrinsic{}
	e.intr = in

	// ---- internal/bytealg ----
	in["internal/bytealg.IndexByteString"] = func(e *Engine, fr *frame, a []Value) Value {
		return e.indexByte(e.strBytes(a[0].(Str)), a[1].(*Term))
	}
	in["internal/bytealg.IndexByte"] = func(e *Engine, fr *frame, a []Value) Value {
		return e.indexByte(sliceBytes(e, a[0]), a[1].(*Term))
	}
	in["internal/bytealg.IndexString"] = func(e *Engine, fr *frame, a []Value) Value {
		return e.indexSub(e.strBytes(a[0].(Str)), e.strBytes(a[1].(Str)))
	}
	in["internal/bytealg.Index"] = func(e *Engine, fr *frame, a []Value) Value {
		return e.indexSub(sliceBytes(e, a[0]), sliceBytes(e, a[1]))
	}
	in["internal/bytealg.Equal"] = func(e *Engine, fr *frame, a []Value) Value {
		return e.strEq(Str{t: nonNil(sliceBytes(e, a[0]))}, Str{t: nonNil(sliceBytes(e, a[1]))})
	}
	in["bytes.Equal"] = in["internal/bytealg.Equal"]
	in["internal/bytealg.Compare"] = func(e *Engine, fr *frame, a []Value) Value {
		return e.compareBytes(sliceBytes(e, a[0]), sliceBytes(e, a[1]))
	}
	in["internal/bytealg.CompareString"] = func(e *Engine, fr *frame, a []Value) Value {
		return e.compareBytes(e.strBytes(a[0].(Str)), e.strBytes(a[1].(Str)))
	}
	in["internal/bytealg.CountString"] = func(e *Engine, fr *frame, a []Value) Value {
		return e.countByte(e.strBytes(a[0].(Str)), a[1].(*Term))
	}
	in["internal/bytealg.Count"] = func(e *Engine, fr *frame, a []Value) Value {
		return e.countByte(sliceBytes(e, a[0]), a[1].(*Term))
	}
	in["internal/bytealg.MakeNoZero"] = func(e *Engine, fr *frame, a []Value) Value {
		n := int(e.concInt(a[0]))
		sl := make(Slice, n)
		z := e.ts.Const(8, 0)
		for i := range sl {
			sl[i] = z
		}
		return sl
	}
	in["internal/bytealg.LastIndexByteString"] = func(e *Engine, fr *frame, a []Value) Value {
		bs := e.strBytes(a[0].(Str))
		for i := len(bs) - 1; i >= 0; i-- {
			if e.decide(e.ts.Cmp(opEq, bs[i], a[1].(*Term))) {
				return e.c64(int64(i))
			}
		}
		return e.c64(-1)
	}
	in["internal/bytealg.LastIndexByte"] = func(e *Engine, fr *frame, a []Value) Value {
		bs := sliceBytes(e, a[0])
		for i := len(bs) - 1; i >= 0; i-- {
			if e.decide(e.ts.Cmp(opEq, bs[i], a[1].(*Term))) {
				return e.c64(int64(i))
			}
		}
		return e.c64(-1)
	}
	in["internal/bytealg.Cutover"] = func(e *Engine, fr *frame, a []Value) Value { return e.c64(4) }
	// strings.Index etc. have fast paths depending on bytealg.MaxLen (0 ⇒ generic code)
	in["internal/abi.NoEscape"] = func(e *Engine, fr *frame, a []Value) Value { return a[0] }
	in["internal/abi.Escape"] = func(e *Engine, fr *frame, a []Value) Value { return a[0] }
	in["internal/race.Enabled"] = nil
	delete(in, "internal/race.Enabled")

	// strings.Builder: the copy check uses abi.NoEscape + pointer compare
	in["(*strings.Builder).copyCheck"] = func(e *Engine, fr *frame, a []Value) Value { return nil }
	in["(*strings.Builder).String"] = func(e *Engine, fr *frame, a []Value) Value {
		b := a[0].(*Value)
		st := (*b).(Struct)
		buf := st[1].(Slice)
		ts := make([]*Term, len(buf))
		for i := range buf {
			ts[i] = buf[i].(*Term)
		}
		return normStr(ts)
	}

	// ---- math ----
	in["math.Float64bits"] = func(e *Engine, fr *frame, a []Value) Value {
		switch f := a[0].(type) {
		case float64:
			return e.ts.Const(64, math.Float64bits(f))
		case FloatSym:
			return f.bits
		}
		panic("Float64bits")
	}
	in["math.Float64frombits"] = func(e *Engine, fr *frame, a []Value) Value {
		t := a[0].(*Term)
		if t.IsConst() {
			return math.Float64frombits(t.c)
		}
		return FloatSym{t}
	}
	in["math.Float32bits"] = func(e *Engine, fr *frame, a []Value) Value {
		return e.ts.Const(32, uint64(math.Float32bits(a[0].(float32))))
	}
	in["math.Float32frombits"] = func(e *Engine, fr *frame, a []Value) Value {
		t := a[0].(*Term)
		if !t.IsConst() {
			e.unsupported("Float32frombits symbolic")
		}
		return math.Float32frombits(uint32(t.c))
	}
	for name, f := range map[string]func(float64) float64{"math.Floor": math.Floor, "math.Ceil": math.Ceil, "math.Trunc": math.Trunc, "math.Sqrt": math.Sqrt, "math.Abs": math.Abs, "math.Log": math.Log, "math.Exp": math.Exp, "math.Log2": math.Log2, "math.Log10": math.Log10} {
		f := f
		in[name] = func(e *Engine, fr *frame, a []Value) Value {
			x, ok := a[0].(float64)
			if !ok {
				e.unsupported("math on symbolic float")
			}
			return f(x)
		}
	}
	in["math.IsNaN"] = func(e *Engine, fr *frame, a []Value) Value {
		x, ok := a[0].(float64)
		if !ok {
			e.unsupported("math on symbolic float")
		}
		return e.ts.Bool(math.IsNaN(x))
	}
	in["math.IsInf"] = func(e *Engine, fr *frame, a []Value) Value {
		x, ok := a[0].(float64)
		if !ok {
			e.unsupported("math on symbolic float")
		}
		return e.ts.Bool(math.IsInf(x, int(e.concInt(a[1]))))
	}
	in["math.Inf"] = func(e *Engine, fr *frame, a []Value) Value { return math.Inf(int(e.concInt(a[0]))) }
	in["math.NaN"] = func(e *Engine, fr *frame, a []Value) Value { return math.NaN() }

	// ---- runtime / os odds and ends ----
	in["runtime.GOMAXPROCS"] = func(e *Engine, fr *frame, a []Value) Value {
		n := 2
		if v, ok := e.params["GOMAXPROCS"]; ok {
			n = v
		}
		return e.c64(int64(n))
	}
	in["runtime.NumCPU"] = in["runtime.GOMAXPROCS"]
	in["runtime.Gosched"] = func(e *Engine, fr *frame, a []Value) Value { e.schedPoint(); return nil }
	in["runtime.KeepAlive"] = func(e *Engine, fr *frame, a []Value) Value { return nil }
	in["runtime.SetFinalizer"] = func(e *Engine, fr *frame, a []Value) Value { return nil }
	in["os.Getpid"] = func(e *Engine, fr *frame, a []Value) Value { return e.c64(4242) }
	// errgroup (x/sync v0.14) records debug.Stack() of a worker that panicked before it re-panics in Wait
	in["runtime/debug.Stack"] = func(e *Engine, fr *frame, a []Value) Value {
		msg := "goroutine stack (symbolic executor)\n"
		sl := make(Slice, len(msg))
		for i := range sl {
			sl[i] = e.ts.Const(8, uint64(msg[i]))
		}
		return sl
	}
	in["os.Exit"] = func(e *Engine, fr *frame, a []Value) Value { panic(pathEnd{"os.Exit"}) }
	in["os/user.Current"] = func(e *Engine, fr *frame, a []Value) Value {
		// (nil, error): node.init falls back to "UNKNOW"
		return Tuple{(*Value)(nil), e.newError("user: Current not available under gosym")}
	}
	in["log.Fatalf"] = func(e *Engine, fr *frame, a []Value) Value { panic(pathEnd{"log.Fatal"}) }
	in["log.Fatal"] = in["log.Fatalf"]
	in["log.Fatalln"] = in["log.Fatalf"]
	in["log.Printf"] = func(e *Engine, fr *frame, a []Value) Value { return nil }
	in["log.Println"] = in["log.Printf"]
	in["log.Print"] = in["log.Printf"]

	e.setupSyncIntrinsics()
	e.setupFmtIntrinsics()
	e.setupEnvIntrinsics()
	e.setupVerifIntrinsics()
	e.setupReflectIntrinsics()
	for _, f := range extraIntrinsics {
		f(e)
	}
}

var extraIntrinsics []func(e *Engine)

func nonNil(t []*Term) []*Term {
	if t == nil {
		return []*Term{}
	}
	return t
}

// newError builds an error value (*errors.errorString).
func (e *Engine) newError(msg string) Value {
	return e.newErrorStr(mkStr(msg))
}

func (e *Engine) newErrorStr(msg Value) Value {
	cell := new(Value)
	*cell = Struct{msg}
	return Iface{t: e.errorStringT, v: cell}
}

// LazyStr is a deferred fmt.Sprintf (used for error messages, whose text is
// rarely inspected; formatting symbolic arguments eagerly would fork paths
// for no observable reason).
type LazyStr struct {
	format Str
	args   Slice
	forced bool
	val    Str
}

func (e *Engine) force(v Value) Str {
	switch v := v.(type) {
	case Str:
		return v
	case *LazyStr:
		if !v.forced {
			v.val = e.sprintf(v.format, v.args)
			v.forced = true
		}
		return v.val
	}
	panic(fmt.Sprintf("force: %T", v))
}

var _ = types.Typ
var _ *ssa.Function
