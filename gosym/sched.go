package main

// Cooperative goroutines (one host goroutine each, exactly one runs at a
// time), channels, select, and the sync primitives.

import (
	"fmt"
	"go/types"
	"sync"

	"golang.org/x/tools/go/ssa"
)

type G struct {
	id      int
	resume  chan struct{}
	done    bool
	daemon  bool
	started bool
	waiting func() bool // non-nil while blocked: true when it may proceed
	what    string
	depth   int
	fn      Value
	args    []Value
	vc      vclock
	panicV  *goPanic
}

type sched struct {
	gs      []*G
	cur     *G
	hostWG  sync.WaitGroup
	dying   bool
	mutexes map[*Value]*mutexState
	rw      map[*Value]*rwState
	wgs     map[*Value]*wgState
	onces   map[*Value]*onceState
	failure *schedFailure
	mainDone chan struct{}
}

type schedFailure struct {
	kind   string
	detail string
}

type mutexState struct {
	locked bool
	owner  int
	vc     vclock
}
type rwState struct {
	readers  int
	writer   bool
	pendingW int
	vc       vclock
	rvc      vclock
}
type wgState struct {
	n  int64
	vc vclock
}
type onceState struct {
	done    bool
	running bool
	vc      vclock
}

func (e *Engine) resetSched() {
	e.sched = sched{
		mutexes: map[*Value]*mutexState{},
		rw:      map[*Value]*rwState{},
		wgs:     map[*Value]*wgState{},
		onces:   map[*Value]*onceState{},
	}
	g0 := &G{id: 0, resume: make(chan struct{}, 1), started: true}
	g0.vc = vclock{}
	e.sched.gs = []*G{g0}
	e.sched.cur = g0
}

// goStart registers a new goroutine (runs when scheduled).
func (e *Engine) goStart(fn Value, args []Value) *G {
	if !e.journaling && e.sched.cur != nil && !e.sched.cur.daemon && e.inInit {
		e.daemons = append(e.daemons, daemon{fn, args})
		return nil
	}
	g := &G{id: len(e.sched.gs), resume: make(chan struct{}, 1), fn: fn, args: args}
	if e.sched.cur != nil {
		e.sched.cur.vc = e.sched.cur.vc.tick(e.sched.cur.id)
		g.vc = e.sched.cur.vc.copy()
	}
	e.sched.gs = append(e.sched.gs, g)
	e.schedPoint()
	return g
}

func (e *Engine) spawnDaemons() {
	for _, d := range e.daemons {
		g := &G{id: len(e.sched.gs), resume: make(chan struct{}, 1), fn: d.fn, args: d.args, daemon: true}
		g.vc = vclock{}
		e.sched.gs = append(e.sched.gs, g)
	}
}

func (e *Engine) runnable(g *G) bool {
	if g.done {
		return false
	}
	if g.waiting != nil {
		return g.waiting()
	}
	return true
}

// launch starts the host goroutine of g (g must hold the baton afterwards).
func (e *Engine) launch(g *G) {
	g.started = true
	e.sched.hostWG.Add(1)
	go func() {
		defer e.sched.hostWG.Done()
		<-g.resume
		defer func() {
			r := recover()
			g.done = true
			switch r := r.(type) {
			case nil:
			case abortG:
				return
			case goPanic:
				// panic escaped a goroutine: the process would die
				if e.sched.failure == nil {
					e.sched.failure = &schedFailure{"panic-in-goroutine", e.panicValueString(r.v)}
				}
			case pathEnd:
				if e.sched.failure == nil {
					e.sched.failure = &schedFailure{"pathend:" + r.reason, ""}
				}
			case unsupportedErr:
				if e.sched.failure == nil {
					e.sched.failure = &schedFailure{"unsupported", r.msg}
				}
			default:
				if e.sched.failure == nil {
					e.sched.failure = &schedFailure{"engine-error", fmt.Sprint(r)}
				}
			}
			if e.sched.dying {
				return
			}
			// hand the baton on
			e.exitG(g)
		}()
		if e.sched.dying {
			panic(abortG{})
		}
		e.call(nil, 0, g.fn, g.args)
	}()
}

// exitG is called on g's host goroutine when g has finished.
func (e *Engine) exitG(g *G) {
	if e.sched.failure != nil {
		// wake main so that it can end the path
		e.wake(e.sched.gs[0])
		return
	}
	next := e.pickNext(nil)
	if next == nil {
		// nobody can run: main is blocked forever (deadlock) or finished
		e.wake(e.sched.gs[0])
		return
	}
	e.wake(next)
}

func (e *Engine) wake(g *G) {
	e.sched.cur = g
	if !g.started {
		e.launch(g)
	}
	g.resume <- struct{}{}
}

// pickNext returns the goroutine to run next under the default policy:
// lowest-numbered runnable non-daemon first, then daemons.
func (e *Engine) pickNext(except *G) *G {
	var dm *G
	for _, g := range e.sched.gs {
		if g == except || !e.runnable(g) {
			continue
		}
		if g.daemon {
			if dm == nil {
				dm = g
			}
			continue
		}
		return g
	}
	return dm
}

// park hands the baton to next and waits to be resumed.
func (e *Engine) park(me, next *G) {
	e.wake(next)
	<-me.resume
	if e.sched.dying {
		panic(abortG{})
	}
	if me.id == 0 && e.sched.failure != nil {
		e.raiseSchedFailure()
	}
}

func (e *Engine) raiseSchedFailure() {
	f := e.sched.failure
	switch {
	case f.kind == "unsupported":
		panic(unsupportedErr{f.detail})
	case len(f.kind) > 8 && f.kind[:8] == "pathend:":
		panic(pathEnd{f.kind[8:]})
	case f.kind == "panic-in-goroutine":
		panic(pathEnd{"panic-in-goroutine: " + f.detail})
	default:
		panic(fmt.Sprintf("engine error in goroutine: %s", f.detail))
	}
}

// block suspends the current goroutine until ready() holds.
func (e *Engine) block(what string, ready func() bool) {
	me := e.sched.cur
	for !ready() {
		me.waiting = ready
		me.what = what
		next := e.pickNext(me)
		if next == nil {
			// nothing else can run
			if me.id == 0 {
				panic(pathEnd{"deadlock: main blocked on " + what})
			}
			// a non-main goroutine is stuck and nobody else can run: main must
			// be blocked too → deadlock is reported from main
			e.wake(e.sched.gs[0])
			<-me.resume
			if e.sched.dying {
				panic(abortG{})
			}
			continue
		}
		e.park(me, next)
	}
	me.waiting = nil
}

// schedPoint is a potential preemption point (schedule mode only), and the
// place where daemons give way.
func (e *Engine) schedPoint() {
	me := e.sched.cur
	if me == nil {
		return
	}
	if me.daemon {
		if next := e.pickNext(me); next != nil && !next.daemon {
			me.waiting = nil
			e.park(me, next)
		}
		return
	}
	if !e.scheduleMode || e.preemptions >= e.preemptBound {
		return
	}
	var rs []*G
	for _, g := range e.sched.gs {
		if g != me && !g.daemon && e.runnable(g) {
			rs = append(rs, g)
		}
	}
	if len(rs) == 0 {
		return
	}
	k := e.choose(len(rs) + 1)
	if k == 0 {
		return
	}
	e.preemptions++
	e.park(me, rs[k-1])
}

// yieldToOthers lets other goroutines run until quiescence (used at harness end).
func (e *Engine) drainGoroutines() {
	me := e.sched.cur
	for {
		var next *G
		for _, g := range e.sched.gs {
			if g != me && !g.daemon && e.runnable(g) {
				next = g
				break
			}
		}
		if next == nil {
			return
		}
		me.waiting = func() bool { return true }
		e.park(me, next)
		me.waiting = nil
	}
}

func (e *Engine) leakedGoroutines() []*G {
	var out []*G
	for _, g := range e.sched.gs {
		if g.id != 0 && !g.daemon && !g.done {
			out = append(out, g)
		}
	}
	return out
}

// killAll tears down all host goroutines of the path.
func (e *Engine) killAll() {
	e.sched.dying = true
	for _, g := range e.sched.gs {
		if g.id != 0 && g.started && !g.done {
			select {
			case g.resume <- struct{}{}:
			default:
			}
		}
	}
	e.sched.hostWG.Wait()
}

// ---------- channels ----------

type sudog struct {
	g      *G
	val    Value
	ok     bool
	done   bool
	closed bool // woken by close (sender must panic)
	sel    *selState
	idx    int
}

type selState struct {
	fired bool
	idx   int
	val   Value
	ok    bool
}

type Chan struct {
	cap    int
	buf    []Value
	closed bool
	sendq  []*sudog
	recvq  []*sudog
	init   bool // created during package initialisation
	vc     vclock
	elemZ  Value
	nclose int
}

func (e *Engine) makeChan(n int) *Chan {
	return &Chan{cap: n, init: !e.journaling}
}

func (e *Engine) journalChan(c *Chan) {
	if !e.journaling || !c.init {
		return
	}
	buf := append([]Value(nil), c.buf...)
	closed := c.closed
	sq := append([]*sudog(nil), c.sendq...)
	rq := append([]*sudog(nil), c.recvq...)
	e.journal = append(e.journal, undo{f: func() { c.buf, c.closed, c.sendq, c.recvq = buf, closed, sq, rq }})
}

func (sg *sudog) fire(val Value, ok bool) bool {
	if sg.sel != nil {
		if sg.sel.fired {
			return false
		}
		sg.sel.fired = true
		sg.sel.idx = sg.idx
		sg.sel.val = val
		sg.sel.ok = ok
		return true
	}
	sg.val, sg.ok, sg.done = val, ok, true
	return true
}

func popLive(q *[]*sudog) *sudog {
	for len(*q) > 0 {
		sg := (*q)[0]
		*q = (*q)[1:]
		if sg.sel != nil && sg.sel.fired {
			continue
		}
		return sg
	}
	return nil
}

func hasLive(q []*sudog) bool {
	for _, sg := range q {
		if sg.sel == nil || !sg.sel.fired {
			return true
		}
	}
	return false
}

func (e *Engine) chanSend(c *Chan, v Value) {
	e.schedPoint()
	if c == nil {
		e.block("send on nil channel", func() bool { return false })
	}
	e.journalChan(c)
	if c.closed {
		e.goPanicStr("send on closed channel")
	}
	me := e.sched.cur
	me.vc = me.vc.tick(me.id)
	if sg := popLive(&c.recvq); sg != nil {
		c.vc = c.vc.join(me.vc)
		sg.fire(v, true)
		if sg.sel != nil {
			sg.sel.val = v
		}
		sg.g.vc = sg.g.vc.join(me.vc)
		e.schedPoint()
		return
	}
	if len(c.buf) < c.cap {
		c.buf = append(c.buf, v)
		c.vc = c.vc.join(me.vc)
		e.schedPoint()
		return
	}
	sg := &sudog{g: me, val: v}
	c.sendq = append(c.sendq, sg)
	e.block("chan send", func() bool { return sg.done })
	if sg.closed {
		e.goPanicStr("send on closed channel")
	}
}

func (e *Engine) chanRecv(c *Chan, commaOk bool, elemT types.Type) Value {
	e.schedPoint()
	if c == nil {
		e.block("receive from nil channel", func() bool { return false })
	}
	e.journalChan(c)
	me := e.sched.cur
	var v Value
	ok := true
	switch {
	case len(c.buf) > 0:
		v = c.buf[0]
		c.buf = c.buf[1:]
		if sg := popLive(&c.sendq); sg != nil {
			c.buf = append(c.buf, sg.val)
			c.vc = c.vc.join(sg.g.vc)
			sg.fire(nil, true)
		}
		me.vc = me.vc.join(c.vc)
	case hasLive(c.sendq):
		sg := popLive(&c.sendq)
		v = sg.val
		me.vc = me.vc.join(sg.g.vc)
		sg.fire(nil, true)
	case c.closed:
		v, ok = e.zero(elemT), false
		me.vc = me.vc.join(c.vc)
	default:
		sg := &sudog{g: me}
		c.recvq = append(c.recvq, sg)
		e.block("chan receive", func() bool { return sg.done })
		v, ok = sg.val, sg.ok
		if !ok {
			v = e.zero(elemT)
			me.vc = me.vc.join(c.vc)
		}
	}
	e.schedPoint()
	if commaOk {
		return Tuple{v, e.ts.Bool(ok)}
	}
	return v
}

func (e *Engine) chanClose(c *Chan) {
	e.schedPoint()
	if c == nil {
		e.goPanicStr("close of nil channel")
	}
	e.journalChan(c)
	if c.closed {
		e.goPanicStr("close of closed channel")
	}
	me := e.sched.cur
	me.vc = me.vc.tick(me.id)
	c.vc = c.vc.join(me.vc)
	c.closed = true
	c.nclose++
	for {
		sg := popLive(&c.recvq)
		if sg == nil {
			break
		}
		sg.fire(nil, false)
	}
	for {
		sg := popLive(&c.sendq)
		if sg == nil {
			break
		}
		sg.closed = true
		if sg.sel != nil {
			sg.sel.fired = true
			sg.sel.idx = sg.idx
			sg.sel.ok = false
			sg.sel.val = nil
			sg.closed = true
		} else {
			sg.done = true
		}
	}
}

func (e *Engine) doSelect(fr *frame, instr *ssa.Select) Value {
	e.schedPoint()
	type scase struct {
		c    *Chan
		send bool
		val  Value
		elem types.Type
	}
	cases := make([]scase, len(instr.States))
	for i, st := range instr.States {
		c := fr.get(st.Chan).(*Chan)
		cases[i] = scase{c: c, send: st.Dir == types.SendOnly, elem: st.Chan.Type().Underlying().(*types.Chan).Elem()}
		if st.Send != nil {
			cases[i].val = copyVal(fr.get(st.Send))
		}
	}
	ready := func(sc scase) bool {
		if sc.c == nil {
			return false
		}
		if sc.send {
			return sc.c.closed || hasLive(sc.c.recvq) || len(sc.c.buf) < sc.c.cap
		}
		return len(sc.c.buf) > 0 || hasLive(sc.c.sendq) || sc.c.closed
	}
	result := func(chosen int, recvOK bool, recv Value) Value {
		r := Tuple{e.ts.Const(64, uint64(int64(chosen))), e.ts.Bool(recvOK)}
		for i, st := range instr.States {
			if st.Dir == types.RecvOnly {
				if i == chosen && recvOK {
					r = append(r, recv)
				} else {
					r = append(r, e.zero(cases[i].elem))
				}
			}
		}
		return r
	}
	var rdy []int
	for i, sc := range cases {
		if ready(sc) {
			rdy = append(rdy, i)
		}
	}
	if len(rdy) > 0 {
		k := 0
		if e.scheduleMode && len(rdy) > 1 {
			k = e.choose(len(rdy))
		}
		i := rdy[k]
		sc := cases[i]
		if sc.send {
			e.chanSend(sc.c, sc.val)
			return result(i, false, nil)
		}
		tv := e.chanRecv(sc.c, true, sc.elem).(Tuple)
		okc := tv[1].(*Term).IsTrue()
		return result(i, okc, tv[0])
	}
	if !instr.Blocking {
		return result(-1, false, nil)
	}
	me := e.sched.cur
	st := &selState{}
	var sgs []*sudog
	for i, sc := range cases {
		if sc.c == nil {
			continue
		}
		e.journalChan(sc.c)
		sg := &sudog{g: me, sel: st, idx: i, val: sc.val}
		sgs = append(sgs, sg)
		if sc.send {
			sc.c.sendq = append(sc.c.sendq, sg)
		} else {
			sc.c.recvq = append(sc.c.recvq, sg)
		}
	}
	e.block("select", func() bool { return st.fired })
	sc := cases[st.idx]
	if sc.send {
		for _, sg := range sgs {
			if sg.idx == st.idx && sg.closed {
				e.goPanicStr("send on closed channel")
			}
		}
		return result(st.idx, false, nil)
	}
	if !st.ok {
		return result(st.idx, false, nil)
	}
	return result(st.idx, true, st.val)
}

// ---------- vector clocks (happens-before race detection) ----------

type vclock map[int]int

func (v vclock) copy() vclock {
	out := make(vclock, len(v))
	for k, x := range v {
		out[k] = x
	}
	return out
}

func (v vclock) tick(id int) vclock {
	out := v.copy()
	out[id]++
	return out
}

func (v vclock) join(o vclock) vclock {
	if len(o) == 0 {
		return v
	}
	out := v.copy()
	for k, x := range o {
		if out[k] < x {
			out[k] = x
		}
	}
	return out
}

func (v vclock) leq(o vclock) bool {
	for k, x := range v {
		if x > o[k] {
			return false
		}
	}
	return true
}
