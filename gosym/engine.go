package main

// Engine: per-worker state — term store, solver, program globals, and the
// control of one symbolic path (decision trace, path condition, model).

import (
	"fmt"
	"os"
	"runtime"
	"go/types"
	"sort"
	"strings"

	"golang.org/x/tools/go/ssa"
)

// host-level panics used for control
type pathEnd struct{ reason string }    // path finished (done / infeasible / ...)
type goPanic struct{ v Value }          // interpreted Go panic
type unsupportedErr struct{ msg string } // construct the engine cannot encode
type abortG struct{}                    // goroutine teardown at path end

type undo struct {
	p   *Value
	old Value
	f   func()
}

type Counterexample struct {
	Obligation string
	Class      string
	Model      Model
	Trace      []int32
	Observed   []Observation
	Kind       string // "assert", "panic", "deadlock", "leak", ...
	Detail     string
	Choices    []Choice
}

type Observation struct {
	Name string
	Val  string
}

type PathResult struct {
	Outcome     string // done, infeasible, unsupported, budget, deadlock, ...
	Detail      string
	Trace       []int32
	Steps       int
	Decisions   int
	SymDecs     int
	Cex         []Counterexample
	Reached     map[string]bool
	NewPrefixes []Prefix
	Unknowns    int
	Model       Model
	Observed    []Observation
	VarOrder    []string
	Choices     []Choice
	Asserts     int
	Tainted     bool // an assertion was violable on this path
	Obligations map[string]int
}

type Prefix struct {
	Trace []int32
	Model Model
	Sites []uint32 // per trace entry: fingerprint of the deciding site (replay divergence check)
	By    string
	PCH   []uint64
	Vals  string
}

type Engine struct {
	ld      *Loader
	prog    *ssa.Program
	ts      *TermStore
	solver  *Solver
	globals map[*ssa.Global]*Value
	fnInfo  map[*ssa.Function]*fnInfo
	intr    map[string]intrinsic

	// init heap journaling
	journal    []undo
	journaling bool
	daemons    []daemon

	// path state
	prefix    []int32
	pos       int
	trace     []int32
	model     Model
	modelOK   bool
	ev        *evaluator
	pc        []*Term
	steps     int
	maxSteps  int
	res       *PathResult
	varCount  map[string]int
	classTag  string
	params    map[string]int // harness parameters (concrete)
	cexSeen   map[string]bool
	scheduleMode bool
	mapOrderMode bool
	mapOrderFilter string // map-order mode only for ranges inside functions whose name contains this
	preemptBound int
	preemptions  int

	// goroutines
	sched sched

	// misc
	errorStringT types.Type
	uuidCounter  int
	nowCounter   int
	sha1Apps     []sha1App
	regexCache   map[string]Value
	trackFns     map[string]bool
	fnsSeen      map[string]bool
	debug        bool
	inInit       bool
	pendingAxioms []*Term
	sha1OutTerm  map[int32]sha1Ref
	sha1OutConc  map[string]int
	prefixModelOK bool
	prefixPCH    []uint64
	prefixVals   string
	curCond      *Term
	prefixBy     string
	sites        []uint32
	prefixSites  []uint32
	ufParent     map[int32]int32
	multiConj    map[int32][]*Term
	localHits    int
	varsMemo     map[int32][]int32
	ufIDs        map[string]int32
	qcache       map[string]cachedQuery
	qhits        int
	dom          map[int32]byteSet
	entangled    map[int32]bool
	ttCache      map[int32]byteSet
	noByteDom    bool
	xcheck       bool
	fastDecisions int
	top          *frame
	curInitPkg   *ssa.Package
	poisoned     map[*ssa.Global]bool // globals assigned by package initialisers that are not interpreted
	syncMaps     map[*Value]*Map // contents of sync.Map values
	syncMapOp    bool            // inside a sync.Map operation (internally synchronised: no race reports)
	poolItems    map[*Value][]Value
	poolVCs      map[*Value][]vclock // release clocks of the Put objects (Put happens-before the Get that returns the object)
	poolDirty    bool
	ptrIDs       map[*Value]int
	witnessCount int
	pendingObs   []pendingObs
	races        []raceReport
	epochs       map[interface{}]*cellEpoch
}

type daemon struct {
	fn   Value
	args []Value
}

func (e *Engine) unsupported(format string, args ...interface{}) {
	panic(unsupportedErr{fmt.Sprintf(format, args...)})
}

// ---------- path condition, decisions ----------

func (e *Engine) resetPath(p Prefix) {
	e.prefix = p.Trace
	e.prefixBy = p.By
	e.prefixPCH = p.PCH
	e.prefixVals = p.Vals
	e.prefixSites = p.Sites
	e.sites = e.sites[:0]
	e.pos = 0
	e.trace = e.trace[:0]
	e.model = p.Model
	e.modelOK = true
	e.prefixModelOK = true
	if e.model == nil {
		e.model = Model{}
		e.modelOK = len(p.Trace) == 0
		e.prefixModelOK = false
	}
	e.ev = &evaluator{m: e.model, cache: map[int32]uint64{}}
	e.pc = e.pc[:0]
	e.steps = 0
	e.varCount = map[string]int{}
	e.classTag = ""
	e.preemptions = 0
	e.uuidCounter = 0
	e.nowCounter = 0
	e.sha1Apps = e.sha1Apps[:0]
	e.pendingAxioms = e.pendingAxioms[:0]
	e.sha1OutTerm = map[int32]sha1Ref{}
	e.sha1OutConc = map[string]int{}
	e.res = &PathResult{Reached: map[string]bool{}}
	e.dom = map[int32]byteSet{}
	e.entangled = map[int32]bool{}
	e.ufParent = map[int32]int32{}
	e.multiConj = map[int32][]*Term{}
	e.solver.NewPath()
}

func (e *Engine) setModel(m Model) {
	if e.debug {
		e.debugCheckModel("setModel:"+callerName(), m, nil)
	}
	e.model = m
	e.modelOK = true
	e.ev = &evaluator{m: m, cache: map[int32]uint64{}}
}

// evalUnder evaluates t under the current model; ok=false if it involves an
// uninterpreted application the model does not cover.
func (e *Engine) evalUnder(t *Term) (v uint64, ok bool) {
	if !e.modelOK {
		return 0, false
	}
	ok = true
	e.ev.ufval = func(app *Term, args []uint64) uint64 {
		if val, has := e.model[fmt.Sprintf("#%d", app.id)]; has {
			return val
		}
		ok = false
		return 0
	}
	defer func() {
		if r := recover(); r != nil {
			ok = false
		}
	}()
	v = e.ev.eval(t)
	if !ok {
		// do not cache results depending on unknown UF values
		e.ev.cache = map[int32]uint64{}
	}
	return v, ok
}

// flushAxioms moves the hash-injectivity instances into the path condition.
// They are only needed once a condition mentions a hash output directly
// (equalities between whole outputs are rewritten to input equalities).
func (e *Engine) flushAxioms() {
	if len(e.pendingAxioms) == 0 {
		return
	}
	ax := e.pendingAxioms
	e.pendingAxioms = nil
	if e.debug {
		fmt.Fprintf(os.Stderr, "FLUSH %d axioms\n%s\n", len(ax), firstLines(e.stackString(), 4))
	}
	for _, a := range ax {
		e.pc = append(e.pc, a)
		e.noteAssumed(a)
		e.link(a)
	}
	e.invalidateModel()
}

func (e *Engine) assume(t *Term) {
	if t.IsTrue() {
		return
	}
	if t.uf {
		e.flushAxioms()
	}
	e.pc = append(e.pc, t)
	e.noteAssumed(t)
	e.link(t)
}

// invalidateModel marks the model as possibly violating newly assumed
// constraints.  While a prefix is being replayed the model delivered with the
// prefix is kept: it satisfies the whole prefix, including the constraints
// (witness digits, hash axioms) that are re-assumed along the way.
func (e *Engine) invalidateModel() {
	if e.pos < len(e.prefix) && e.prefixModelOK {
		return
	}
	e.modelOK = false
}

// ensureModel makes sure e.model satisfies the path condition.
func (e *Engine) ensureModel() {
	if e.modelOK {
		return
	}
	v, m := e.query(nil)
	switch v {
	case Sat:
		e.setModel(m)
	case Unsat:
		if e.debug {
			fmt.Fprintf(os.Stderr, "INFEASIBLE at pos=%d/%d pc=%d\n%s\n", e.pos, len(e.prefix), len(e.pc), e.stackString())
			full := e.pc
			for k := 1; k <= len(full); k++ {
				need := map[int32]bool{}
				vd, _ := e.solver.CheckSet(full[:k], need)
				if vd != Sat {
					fmt.Fprintf(os.Stderr, "  first unsat prefix: %d conjuncts; last = %s\n", k, termString(full[k-1], 6))
					for j := k - 2; j >= 0 && j >= k-8; j-- {
						fmt.Fprintf(os.Stderr, "    before: %s\n", termString(full[j], 6))
					}
					break
				}
			}
		}
		panic(pathEnd{"infeasible"})
	default:
		e.res.Unknowns++
		panic(pathEnd{"solver-unknown"})
	}
}

// decide forks on a Bool term; returns the side taken on this path.
func (e *Engine) decide(c *Term) bool {
	e.curCond = c
	r := e.decide0(c)
	e.syncSites()
	e.curCond = nil
	return r
}

func (e *Engine) decide0(c *Term) bool {
	if c.IsConst() {
		return c.c != 0
	}
	e.res.SymDecs++
	if e.pos < len(e.prefix) {
		v := e.prefix[e.pos]
		e.pos++
		e.trace = append(e.trace, v)
		if v == 1 {
			e.assume(c)
		} else {
			e.assume(e.ts.BNot(c))
		}
		if e.pos == len(e.prefix) && e.debug && e.modelOK {
			e.debugCheckModel("prefix-model by "+e.prefixBy, e.model, nil)
			same := len(e.pc) == len(e.prefixPCH)+1
			for i := range e.prefixPCH {
				if i < len(e.pc) && e.pc[i].sh != e.prefixPCH[i] {
					same = false
					fmt.Fprintf(os.Stderr, "PCDIFF at %d: %s\n", i, termString(e.pc[i], 6))
					break
				}
			}
			if fmt.Sprint(filterModel(e.model, nil)) != e.prefixVals {
				fmt.Fprintf(os.Stderr, "MODELDIFF pushed=%s now=%v samePC=%v lens %d %d\n", e.prefixVals, filterModel(e.model, nil), same, len(e.pc), len(e.prefixPCH))
			}
		}
		return v == 1
	}
	e.ensureModel()
	if e.unary(c) {
		return e.decideUnary(c)
	}
	if !e.noByteDom && !c.multi && c.sv != nil && c.sv.w == 8 {
		if side, done := e.decideEntangled(c); done {
			return side
		}
	}
	mv, ok := e.evalUnder(c)
	var side bool
	if ok {
		side = mv != 0
	} else {
		// model cannot predict: ask the solver for the true side first
		v, m := e.query(c)
		switch v {
		case Sat:
			side = true
			e.setModel(m)
		case Unsat:
			// only the false side is feasible
			e.trace = append(e.trace, 0)
			e.assume(e.ts.BNot(c))
			e.invalidateModel()
			return false
		default:
			e.res.Unknowns++
			panic(pathEnd{"solver-unknown"})
		}
	}
	// is the other side feasible?
	other := c
	if side {
		other = e.ts.BNot(c)
	}
	v, m := e.query(other)
	switch v {
	case Sat:
		nt := make([]int32, len(e.trace)+1)
		copy(nt, e.trace)
		nt[len(e.trace)] = int32(b2u(!side))
		e.debugCheckModel("decide/solver", m, other)
		e.res.NewPrefixes = append(e.res.NewPrefixes, e.mkPrefix(nt, m))
	case Unknown:
		e.res.Unknowns++
	}
	e.trace = append(e.trace, int32(b2u(side)))
	if side {
		e.assume(c)
	} else {
		e.assume(e.ts.BNot(c))
	}
	return side
}

// decideUnary is decide for a condition over one independent 8-bit variable.
func (e *Engine) decideUnary(c *Term) bool {
	v := c.sv
	d := e.domOf(v)
	tt := e.truthTable(c)
	tset, fset := d.and(tt), d.and(tt.not())
	e.fastDecisions++
	if e.xcheck {
		v1, _ := e.query(c)
		v2, _ := e.query(e.ts.BNot(c))
		if (v1 == Sat) != !tset.empty() || (v2 == Sat) != !fset.empty() {
			panic(fmt.Sprintf("xcheck: byte-domain verdict differs from solver for term %d: solver %v/%v, dom %v/%v", c.id, v1, v2, !tset.empty(), !fset.empty()))
		}
	}
	cur := e.model[v.name] & 0xff
	side := tt.has(cur)
	if !d.has(cur) {
		// model value outside the domain should not happen; repair
		if !tset.empty() {
			side = true
			e.setModel(e.modelWith(v, tset.first()))
		} else {
			side = false
			e.setModel(e.modelWith(v, fset.first()))
		}
	}
	other := fset
	if !side {
		other = tset
	}
	if !other.empty() {
		nt := make([]int32, len(e.trace)+1)
		copy(nt, e.trace)
		nt[len(e.trace)] = int32(b2u(!side))
		om := e.modelWith(v, other.first())
		if side {
			e.debugCheckModel("decideUnary", om, e.ts.BNot(c))
		} else {
			e.debugCheckModel("decideUnary", om, c)
		}
		e.res.NewPrefixes = append(e.res.NewPrefixes, e.mkPrefix(nt, om))
	}
	e.trace = append(e.trace, int32(b2u(side)))
	if side {
		e.assume(c)
	} else {
		e.assume(e.ts.BNot(c))
	}
	return side
}

// decideEntangled handles a condition over one 8-bit variable that also
// occurs in multi-variable conjuncts: the model gives one side; the other side
// is refuted by an empty domain, or established by local search; otherwise
// done=false and the SMT solver decides.
func (e *Engine) decideEntangled(c *Term) (side bool, done bool) {
	v := c.sv
	d := e.domOf(v)
	tt := e.truthTable(c)
	cur := e.model[v.name] & 0xff
	if !d.has(cur) {
		return false, false
	}
	side = tt.has(cur)
	other := d.and(tt.not())
	if !side {
		other = d.and(tt)
	}
	var om Model
	feasible := false
	if !other.empty() {
		m, ok := e.localSearch(v, other)
		if !ok {
			return false, false
		}
		om, feasible = m, true
		if side {
			e.debugCheckModel("decideEntangled", om, e.ts.BNot(c))
		} else {
			e.debugCheckModel("decideEntangled", om, c)
		}
		e.localHits++
	}
	e.fastDecisions++
	if feasible {
		nt := make([]int32, len(e.trace)+1)
		copy(nt, e.trace)
		nt[len(e.trace)] = int32(b2u(!side))
		e.res.NewPrefixes = append(e.res.NewPrefixes, e.mkPrefix(nt, om))
	}
	e.trace = append(e.trace, int32(b2u(side)))
	if side {
		e.assume(c)
	} else {
		e.assume(e.ts.BNot(c))
	}
	return side, true
}

// site returns a fingerprint of the current interpretation point.
func (e *Engine) site() uint32 {
	fr := e.top
	if fr == nil {
		return 0
	}
	h := uint32(2166136261)
	name := fr.fn.String()
	for i := 0; i < len(name); i++ {
		h = (h ^ uint32(name[i])) * 16777619
	}
	if fr.block != nil {
		h = (h ^ uint32(fr.block.Index)) * 16777619
	}
	if e.curCond != nil {
		h = (h ^ uint32(e.curCond.sh) ^ uint32(e.curCond.sh>>32)) * 16777619
	}
	return h
}

// syncSites keeps e.sites aligned with e.trace and checks replay divergence.
func (e *Engine) syncSites() {
	s := e.site()
	for len(e.sites) < len(e.trace) {
		i := len(e.sites)
		if i < len(e.prefixSites) && i < len(e.prefix) && e.prefixSites[i] != s && e.prefixSites[i] != 0 {
			panic(fmt.Sprintf("replay divergence at decision %d: site %08x, recorded %08x\n%s", i, s, e.prefixSites[i], e.stackString()))
		}
		e.sites = append(e.sites, s)
	}
}

func (e *Engine) mkPrefix(nt []int32, m Model) Prefix {
	st := make([]uint32, len(nt))
	copy(st, e.sites)
	s := e.site()
	for i := len(e.sites); i < len(nt); i++ {
		st[i] = s
	}
	by := ""
	if e.debug {
		by = callerName()
		e.debugCheckModel("mkPrefix<-"+by, m, nil)
	}
	var pch []uint64
	vals := ""
	if e.debug {
		for _, c := range e.pc {
			pch = append(pch, c.sh)
		}
		vals = fmt.Sprint(filterModel(m, nil))
	}
	return Prefix{Trace: nt, Model: m, Sites: st, By: by, PCH: pch, Vals: vals}
}

// debugCheckModel verifies (debug mode) that m satisfies the path condition plus cond.
func (e *Engine) debugCheckModel(who string, m Model, cond *Term) {
	if !e.debug || m == nil {
		return
	}
	ev := &evaluator{m: m, cache: map[int32]uint64{}}
	bad := false
	ev.ufval = func(app *Term, args []uint64) uint64 { bad = true; return 0 }
	check := func(c *Term, what string) {
		if ev.eval(c) == 0 && !bad {
			fmt.Fprintf(os.Stderr, "BADMODEL from %s: violates %s %s\n  vars=%v\n", who, what, termString(c, 8), filterModel(m, nil))
			if c.sv != nil {
				tt := e.truthTable(c)
				fmt.Fprintf(os.Stderr, "  conj: multi=%v sv=%s entangled=%v tt=%x dom=%x\n", c.multi, c.sv.name, e.entangled[c.sv.id], tt, e.domOf(c.sv))
			} else {
				fmt.Fprintf(os.Stderr, "  conj: multi=%v sv=nil vars=%v\n", c.multi, e.varsOf(c))
			}
		}
	}
	for i, c := range e.pc {
		check(c, fmt.Sprintf("pc[%d]", i))
	}
	if cond != nil {
		check(cond, "cond")
	}
}

// choose makes an n-way concrete (skeleton / scheduler) decision.
func (e *Engine) choose(n int) int {
	r := e.choose0(n)
	e.syncSites()
	return r
}

func (e *Engine) choose0(n int) int {
	if n <= 1 {
		return 0
	}
	if e.pos < len(e.prefix) {
		v := e.prefix[e.pos]
		e.pos++
		e.trace = append(e.trace, v)
		return int(v)
	}
	for k := n - 1; k >= 1; k-- {
		nt := make([]int32, len(e.trace)+1)
		copy(nt, e.trace)
		nt[len(e.trace)] = int32(k)
		var m Model
		if e.modelOK {
			m = e.model
		}
		e.res.NewPrefixes = append(e.res.NewPrefixes, e.mkPrefix(nt, m))
	}
	e.trace = append(e.trace, 0)
	return 0
}

// concretize picks a feasible concrete value for t (forking over the others).
func (e *Engine) concretize(t *Term) uint64 {
	r := e.concretize0(t)
	e.syncSites()
	return r
}

func (e *Engine) concretize0(t *Term) uint64 {
	for {
		if t.IsConst() {
			return t.c
		}
		e.ensureModel()
		var v uint64
		if e.pos < len(e.prefix) {
			// replay: decisions of the form t==v were recorded as 0/1; we need
			// the same candidate values, which come from deterministic models:
			// to be robust we store the value itself in the trace.
			mark := e.prefix[e.pos]
			if mark != -2 {
				panic(fmt.Sprintf("trace mismatch in concretize: %d", mark))
			}
			v = uint64(uint32(e.prefix[e.pos+1])) | uint64(uint32(e.prefix[e.pos+2]))<<32
			side := e.prefix[e.pos+3]
			e.pos += 4
			e.trace = append(e.trace, -2, int32(uint32(v)), int32(uint32(v>>32)), side)
			eq := e.ts.Cmp(opEq, t, e.ts.Const(t.w, v))
			if side == 1 {
				e.assume(eq)
				return v
			}
			e.assume(e.ts.BNot(eq))
			continue
		}
		mv, ok := e.evalUnder(t)
		if !ok {
			vd, m := e.query(nil)
			if vd != Sat {
				e.res.Unknowns++
				panic(pathEnd{"solver-unknown"})
			}
			e.setModel(m)
			mv, ok = e.evalUnder(t)
			if !ok {
				e.unsupported("concretize: cannot evaluate term")
			}
		}
		v = mv
		eq := e.ts.Cmp(opEq, t, e.ts.Const(t.w, v))
		// other side: t != v
		var vd Verdict
		var m Model
		if e.unary(eq) {
			fset := e.domOf(eq.sv).and(e.truthTable(eq).not())
			e.fastDecisions++
			if fset.empty() {
				vd = Unsat
			} else {
				vd, m = Sat, e.modelWith(eq.sv, fset.first())
			}
		} else {
			vd, m = e.query(e.ts.BNot(eq))
		}
		if vd == Sat {
			nt := make([]int32, len(e.trace)+4)
			copy(nt, e.trace)
			nt[len(e.trace)] = -2
			nt[len(e.trace)+1] = int32(uint32(v))
			nt[len(e.trace)+2] = int32(uint32(v >> 32))
			nt[len(e.trace)+3] = 0
			e.res.NewPrefixes = append(e.res.NewPrefixes, e.mkPrefix(nt, m))
		} else if vd == Unknown {
			e.res.Unknowns++
		}
		e.trace = append(e.trace, -2, int32(uint32(v)), int32(uint32(v>>32)), 1)
		e.assume(eq)
		return v
	}
}

// concInt returns a concrete int for an integer value (forking if symbolic).
func (e *Engine) concInt(v Value) int64 {
	t := v.(*Term)
	if t.IsConst() {
		return sext(t.c, t.w)
	}
	return sext(e.concretize(t), t.w)
}

// ---------- harness API ----------

func (e *Engine) newVar(name string, w uint8) *Term {
	n := e.varCount[name]
	e.varCount[name] = n + 1
	full := name
	if n > 0 {
		full = fmt.Sprintf("%s#%d", name, n)
	}
	e.res.VarOrder = append(e.res.VarOrder, full)
	return e.ts.Var(full, w)
}

func (e *Engine) doAssume(c *Term) {
	if c.IsTrue() {
		return
	}
	if c.IsFalse() {
		panic(pathEnd{"assume-false"})
	}
	e.ensureModel()
	if mv, ok := e.evalUnder(c); ok && mv != 0 {
		e.assume(c)
		return
	}
	v, m := e.query(c)
	switch v {
	case Sat:
		e.assume(c)
		e.setModel(m)
	case Unsat:
		panic(pathEnd{"assume-false"})
	default:
		e.res.Unknowns++
		panic(pathEnd{"solver-unknown"})
	}
}

func (e *Engine) doAssert(c *Term, obligation string) {
	if c.IsTrue() {
		return
	}
	key := obligation + "#" + e.classTag
	v, m := Unsat, Model(nil)
	e.ensureModel()
	if c.IsFalse() {
		v, m = Sat, e.model
	} else {
		v, m = e.query(e.ts.BNot(c))
	}
	switch v {
	case Sat:
		e.res.Tainted = true
		if !e.cexSeen[key] {
			tr := append([]int32(nil), e.trace...)
			e.res.Cex = append(e.res.Cex, Counterexample{Obligation: obligation, Class: e.classTag, Model: m, Trace: tr, Kind: "assert",
				Observed: append([]Observation(nil), e.observedUnder(m)...)})
		}
		// continue under the assumption that the assertion holds
		if c.IsFalse() {
			panic(pathEnd{"assert-failed-always"})
		}
		e.ensureModel()
		if mv, ok := e.evalUnder(c); ok && mv != 0 {
			e.assume(c)
			return
		}
		v2, m2 := e.query(c)
		switch v2 {
		case Sat:
			e.assume(c)
			e.setModel(m2)
		case Unsat:
			panic(pathEnd{"assert-failed-always"})
		default:
			e.res.Unknowns++
			panic(pathEnd{"solver-unknown"})
		}
	case Unsat:
		e.assume(c)
	default:
		e.res.Unknowns++
		e.assume(c)
	}
}

type pendingObs struct {
	name string
	v    Value
}

func (e *Engine) observedUnder(m Model) []Observation {
	return nil
}

// fail records a definite failure on this path (e.g. panic escaped).
func (e *Engine) recordFailure(kind, obligation, detail string) {
	key := obligation + "#" + e.classTag
	if e.cexSeen[key] {
		return
	}
	e.ensureModel()
	tr := append([]int32(nil), e.trace...)
	e.res.Cex = append(e.res.Cex, Counterexample{Obligation: obligation, Class: e.classTag, Model: e.model, Trace: tr, Kind: kind, Detail: detail})
}

// ---------- Go-level panics ----------

func (e *Engine) goPanicStr(msg string) {
	panic(goPanic{Iface{t: types.Typ[types.String], v: mkStr(msg)}})
}

func (e *Engine) panicValueString(v Value) string {
	if it, ok := v.(Iface); ok {
		if it.t == nil {
			return "panic(nil)"
		}
		if s, ok := it.v.(Str); ok {
			if s.t == nil {
				return s.s
			}
			return "<symbolic string>"
		}
		// error or Stringer: try Error()
		if m := e.findMethod(it.t, "Error"); m != nil {
			func() {
				defer func() { recover() }()
			}()
			return fmt.Sprintf("error value of type %v", it.t)
		}
		return fmt.Sprintf("value of type %v", it.t)
	}
	return fmt.Sprintf("%T", v)
}

func (e *Engine) findMethod(t types.Type, name string) *ssa.Function {
	ms := e.prog.MethodSets.MethodSet(t)
	for i := 0; i < ms.Len(); i++ {
		sel := ms.At(i)
		if sel.Obj().Name() == name {
			return e.prog.MethodValue(sel)
		}
	}
	return nil
}

func sortedKeys(m map[string]bool) []string {
	var ks []string
	for k := range m {
		ks = append(ks, k)
	}
	sort.Strings(ks)
	return ks
}

func fnName(fn *ssa.Function) string {
	s := fn.String()
	return strings.TrimSpace(s)
}

func callerName() string {
	pc, _, line, ok := runtime.Caller(2)
	if !ok {
		return "?"
	}
	return fmt.Sprintf("%s:%d", runtime.FuncForPC(pc).Name(), line)
}
