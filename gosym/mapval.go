package main

// Maps: insertion-ordered association lists with a hash index for entries
// whose keys are fully concrete.  Lookups with symbolic keys fork (decide)
// on equality with each candidate entry.

import (
	"fmt"
	"go/types"
	"strings"

	"golang.org/x/tools/go/ssa"
)

type mapEntry struct {
	key     Value
	val     Value
	hk      string // concrete hash key, "" if symbolic
	deleted bool
}

type Map struct {
	t       *types.Map
	entries []*mapEntry
	index   map[string]*mapEntry
	nsym    int
	live    int
}

func (e *Engine) makeMap(t *types.Map) *Map {
	return &Map{t: t, index: map[string]*mapEntry{}}
}

// hashKey returns a canonical string for a fully concrete key.
func (e *Engine) hashKey(v Value, sb *strings.Builder) bool {
	switch v := v.(type) {
	case *Term:
		if !v.IsConst() {
			return false
		}
		fmt.Fprintf(sb, "i%d:%d;", v.w, v.c)
		return true
	case Str:
		if v.t != nil {
			return false
		}
		fmt.Fprintf(sb, "s%d:%s;", len(v.s), v.s)
		return true
	case float64:
		fmt.Fprintf(sb, "f%v;", v)
		return true
	case float32:
		fmt.Fprintf(sb, "g%v;", v)
		return true
	case *Value:
		fmt.Fprintf(sb, "p%p;", v)
		return true
	case *Chan:
		fmt.Fprintf(sb, "c%p;", v)
		return true
	case *Map:
		fmt.Fprintf(sb, "m%p;", v)
		return true
	case Iface:
		if v.t == nil {
			sb.WriteString("nil;")
			return true
		}
		sb.WriteString("I" + v.t.String() + ":")
		return e.hashKey(v.v, sb)
	case Struct:
		sb.WriteString("{")
		for _, f := range v {
			if !e.hashKey(f, sb) {
				return false
			}
		}
		sb.WriteString("}")
		return true
	case Array:
		sb.WriteString("[")
		for _, f := range v {
			if !e.hashKey(f, sb) {
				return false
			}
		}
		sb.WriteString("]")
		return true
	case *ssa.Function:
		fmt.Fprintf(sb, "F%p;", v)
		return true
	}
	return false
}

func (e *Engine) keyHash(k Value) string {
	var sb strings.Builder
	if e.hashKey(k, &sb) {
		return sb.String()
	}
	return ""
}

// find returns the entry equal to key on this path (forking as needed).
func (e *Engine) mapFind(m *Map, key Value) *mapEntry {
	hk := e.keyHash(key)
	if hk != "" {
		if en, ok := m.index[hk]; ok {
			return en
		}
		if m.nsym == 0 {
			return nil
		}
		// compare against symbolic-key entries only
		for _, en := range m.entries {
			if en.deleted || en.hk != "" {
				continue
			}
			if e.decide(e.equals(m.t.Key(), key, en.key)) {
				return en
			}
		}
		return nil
	}
	for _, en := range m.entries {
		if en.deleted {
			continue
		}
		if e.decide(e.equals(m.t.Key(), key, en.key)) {
			return en
		}
	}
	return nil
}

func (e *Engine) mapLookup(m *Map, key Value) (Value, bool) {
	e.raceReadObj(m)
	if en := e.mapFind(m, key); en != nil {
		return en.val, true
	}
	return nil, false
}

func (e *Engine) mapInsert(m *Map, key, val Value) {
	e.raceWriteObj(m)
	if en := e.mapFind(m, key); en != nil {
		old := en.val
		if e.journaling {
			e.journal = append(e.journal, undo{f: func() { en.val = old }})
		}
		en.val = val
		return
	}
	en := &mapEntry{key: copyVal(key), val: val, hk: e.keyHash(key)}
	m.entries = append(m.entries, en)
	m.live++
	if en.hk != "" {
		m.index[en.hk] = en
	} else {
		m.nsym++
	}
	if e.journaling {
		e.journal = append(e.journal, undo{f: func() {
			m.entries = m.entries[:len(m.entries)-1]
			m.live--
			if en.hk != "" {
				delete(m.index, en.hk)
			} else {
				m.nsym--
			}
		}})
	}
}

func (e *Engine) mapDelete(m *Map, key Value) {
	e.raceWriteObj(m)
	en := e.mapFind(m, key)
	if en == nil {
		return
	}
	en.deleted = true
	m.live--
	if en.hk != "" {
		delete(m.index, en.hk)
	} else {
		m.nsym--
	}
	if e.journaling {
		e.journal = append(e.journal, undo{f: func() {
			en.deleted = false
			m.live++
			if en.hk != "" {
				m.index[en.hk] = en
			} else {
				m.nsym++
			}
		}})
	}
}

func (e *Engine) mapClear(m *Map) {
	for _, en := range m.entries {
		if !en.deleted {
			en := en
			en.deleted = true
			m.live--
			if en.hk != "" {
				delete(m.index, en.hk)
			} else {
				m.nsym--
			}
			if e.journaling {
				e.journal = append(e.journal, undo{f: func() {
					en.deleted = false
					m.live++
					if en.hk != "" {
						m.index[en.hk] = en
					} else {
						m.nsym++
					}
				}})
			}
		}
	}
}

func (e *Engine) mapLen(m *Map) int { e.raceReadObj(m); return m.live }

type mapIterator struct {
	m     *Map
	order []*mapEntry
	i     int
}

func (e *Engine) mapIter(m *Map) iterator {
	it := &mapIterator{m: m}
	if m == nil {
		return it
	}
	e.raceReadObj(m)
	for _, en := range m.entries {
		if !en.deleted {
			it.order = append(it.order, en)
		}
	}
	if e.mapOrderMode && len(it.order) >= 2 && (e.mapOrderFilter == "" || (e.top != nil && strings.Contains(e.top.fn.String(), e.mapOrderFilter))) {
		// rotations and reversal expose order dependence without n! blow-up
		k := e.choose(len(it.order) + 1)
		if k == len(it.order) {
			for i, j := 0, len(it.order)-1; i < j; i, j = i+1, j-1 {
				it.order[i], it.order[j] = it.order[j], it.order[i]
			}
		} else if k > 0 {
			it.order = append(append([]*mapEntry{}, it.order[k:]...), it.order[:k]...)
		}
	}
	return it
}

func (it *mapIterator) next(e *Engine) Tuple {
	for it.i < len(it.order) {
		en := it.order[it.i]
		it.i++
		if en.deleted {
			continue // deleted during iteration
		}
		return Tuple{e.ts.tru, copyVal(en.key), copyVal(en.val)}
	}
	kz := Value(nil)
	vz := Value(nil)
	if it.m != nil {
		kz, vz = e.zero(it.m.t.Key()), e.zero(it.m.t.Elem())
	} else {
		kz, vz = e.ts.Const(64, 0), e.ts.Const(64, 0)
	}
	return Tuple{e.ts.fls, kz, vz}
}
