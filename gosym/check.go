package main

func cmdCheck(args []string) { fatalf("check: not yet") }
