package main

// check: property-level driver.  Runs the harnesses registered for a property,
// replays every counterexample natively, classifies it against
// known_findings.txt, validates a sample of passing paths against the
// compiled code, and writes evidence/<id>.json.

import (
	"bufio"
	"crypto/sha1"
	"encoding/json"
	"flag"
	"fmt"
	"os"
	"os/exec"
	"path/filepath"
	"regexp"
	"sort"
	"strings"
	"time"
)

type HarnessSpec struct {
	Name     string
	Pkg      string // directory under harness/
	Quick    map[string]int
	Thorough map[string]int
	Solver   string
	Schedule bool
	MapOrder bool
	MapOrderFilter string
	BudgetObligation string
	Preempt  int
	Race     bool
	PoolDirty bool
	MaxSteps int
	QuickWall, ThoroughWall time.Duration
	TimeoutMS int
	// SkipThorough / SkipQuick: run only in one tier
	OnlyThorough bool
	NoNative     bool // native replay impossible (e.g. schedule-dependent); cex reported as engine-only
	Note         string
}

type knownFinding struct {
	Property string
	Key      string
	Desc     string
}

func loadKnown(verifDir string) (known []knownFinding, fixed []string) {
	f, err := os.Open(filepath.Join(verifDir, "known_findings.txt"))
	if err != nil {
		return nil, nil
	}
	defer f.Close()
	sc := bufio.NewScanner(f)
	re := regexp.MustCompile(`^known:\s+property=(\S+)\s+key=(\S+)\s*::\s*(.*)$`)
	for sc.Scan() {
		line := strings.TrimSpace(sc.Text())
		if m := re.FindStringSubmatch(line); m != nil {
			known = append(known, knownFinding{m[1], m[2], m[3]})
		} else if strings.HasPrefix(line, "fixed:") {
			fixed = append(fixed, line)
		}
	}
	return
}

type vectorFile struct {
	Harness string            `json:"harness"`
	Pkg     string            `json:"pkg"`
	Vars    map[string]uint64 `json:"vars"`
	Params  map[string]int    `json:"params"`
	Expect  string            `json:"expect,omitempty"`   // obligation#class expected to fail
	Kind    string            `json:"kind,omitempty"`
	Detail  string            `json:"detail,omitempty"`
	Obs     []string          `json:"observed,omitempty"`
	Property string           `json:"property,omitempty"`
	Stress   bool             `json:"stress,omitempty"`
}

type nativeResult struct {
	Outcome string   `json:"outcome"`
	Failed  []string `json:"failed"`
	Obs     []string `json:"obs"`
}

// buildNative compiles the native replay binary for harness package pkg.
// nativeBuilt: the replay binaries this process compiled (removed when it ends)
var nativeBuilt []string

func removeNative() {
	for _, b := range nativeBuilt {
		os.Remove(b)
	}
}

func buildNative(verifDir, pkg string, race bool) (string, error) {
	ov, _, err := overlayFiles(verifDir)
	if err != nil {
		return "", err
	}
	// registry of harness functions
	dir := filepath.Join(verifDir, "harness", pkg)
	ents, _ := os.ReadDir(dir)
	re := regexp.MustCompile(`(?m)^func (Harness[A-Za-z0-9_]*)\(\)`)
	var names []string
	for _, f := range ents {
		if !strings.HasSuffix(f.Name(), ".go") {
			continue
		}
		b, _ := os.ReadFile(filepath.Join(dir, f.Name()))
		for _, m := range re.FindAllSubmatch(b, -1) {
			names = append(names, string(m[1]))
		}
	}
	sort.Strings(names)
	var sb strings.Builder
	sb.WriteString("package zz" + pkg + "\n\nimport (\n\t\"encoding/json\"\n\t\"fmt\"\n\t\"os\"\n\t\"testing\"\n\n\tverif \"" + verifPkg + "\"\n)\n\n")
	sb.WriteString("var zzHarnesses = map[string]func(){\n")
	for _, n := range names {
		fmt.Fprintf(&sb, "\t%q: %s,\n", n, n)
	}
	sb.WriteString("}\n\n")
	sb.WriteString(`func TestZZReplay(t *testing.T) {
	var files []string
	b, err := os.ReadFile(os.Getenv("GOSYM_VECTORS"))
	if err != nil {
		t.Fatal(err)
	}
	if err := json.Unmarshal(b, &files); err != nil {
		t.Fatal(err)
	}
	name := os.Getenv("GOSYM_HARNESS")
	h := zzHarnesses[name]
	if h == nil {
		t.Fatalf("no harness %q", name)
	}
	repeat := 1
	fmt.Sscan(os.Getenv("GOSYM_REPEAT"), &repeat)
	for i, f := range files {
		var out string
		for k := 0; k < repeat; k++ {
			if err := verif.Load(f); err != nil {
				t.Fatal(err)
			}
			out = verif.RunNative(h)
			if out != "done" || len(verif.Failed) > 0 {
				break
			}
		}
		r, _ := json.Marshal(map[string]interface{}{"outcome": out, "failed": verif.Failed, "obs": verif.Obs})
		fmt.Printf("NATIVE-RESULT %d %s\n", i, r)
	}
}
`)
	tmp, err := os.MkdirTemp(filepath.Join(verifDir, "bin"), "ov")
	if err != nil {
		return "", err
	}
	defer os.RemoveAll(tmp)
	repl := map[string]string{}
	i := 0
	for virt, content := range ov {
		real := filepath.Join(tmp, fmt.Sprintf("f%d.go", i))
		i++
		if err := os.WriteFile(real, content, 0o644); err != nil {
			return "", err
		}
		repl[virt] = real
	}
	reg := filepath.Join(tmp, "registry_test.go")
	os.WriteFile(reg, []byte(sb.String()), 0o644)
	repl[filepath.Join(repoDir, "internal", "zz"+pkg, "zz_registry_test.go")] = reg
	oj, _ := json.Marshal(map[string]interface{}{"Replace": repl})
	ovPath := filepath.Join(tmp, "overlay.json")
	os.WriteFile(ovPath, oj, 0o644)
	// one binary per process: checks of several properties may run at the same time
	bin := filepath.Join(verifDir, "bin", fmt.Sprintf("native_%s_%d.test", pkg, os.Getpid()))
	nativeBuilt = append(nativeBuilt, bin)
	args := []string{"test", "-c", "-tags", "verif", "-vet=off", "-overlay", ovPath}
	if race {
		bin = filepath.Join(verifDir, "bin", fmt.Sprintf("native_%s_race_%d.test", pkg, os.Getpid()))
		nativeBuilt = append(nativeBuilt, bin)
		args = append(args, "-race")
	}
	args = append(args, "-o", bin, "./internal/zz"+pkg+"/")
	cmd := exec.Command("go", args...)
	cmd.Dir = repoDir
	cmd.Env = append(os.Environ(), "GOFLAGS=-mod=mod", "GOPROXY=off")
	out, err := cmd.CombinedOutput()
	if err != nil {
		return "", fmt.Errorf("native build failed: %v\n%s", err, out)
	}
	return bin, nil
}

// runNative runs the compiled harness on the given vector files.
func runNative(bin, verifDir, harness string, files []string, timeout time.Duration, repeat int) ([]nativeResult, string, error) {
	lf, err := os.CreateTemp(filepath.Join(verifDir, "bin"), "vecs*.json")
	if err != nil {
		return nil, "", err
	}
	defer os.Remove(lf.Name())
	b, _ := json.Marshal(files)
	lf.Write(b)
	lf.Close()
	cmd := exec.Command(bin, "-test.run", "^TestZZReplay$", "-test.timeout", fmt.Sprint(timeout))
	cmd.Dir = verifDir
	cmd.Env = append(os.Environ(), "GOSYM_VECTORS="+lf.Name(), "GOSYM_HARNESS="+harness, fmt.Sprintf("GOSYM_REPEAT=%d", repeat))
	out, runErr := cmd.CombinedOutput()
	res := make([]nativeResult, len(files))
	got := 0
	for _, line := range strings.Split(string(out), "\n") {
		if !strings.HasPrefix(line, "NATIVE-RESULT ") {
			continue
		}
		var idx int
		rest := strings.TrimPrefix(line, "NATIVE-RESULT ")
		sp := strings.IndexByte(rest, ' ')
		fmt.Sscanf(rest[:sp], "%d", &idx)
		var nr nativeResult
		if json.Unmarshal([]byte(rest[sp+1:]), &nr) == nil && idx < len(res) {
			res[idx] = nr
			got++
		}
	}
	if got < len(files) {
		// the process died (fatal error, timeout, os.Exit): mark the first missing one
		for i := range res {
			if res[i].Outcome == "" {
				res[i].Outcome = "process-died"
				break
			}
		}
	}
	return res, string(out), runErr
}

func writeVector(path string, v vectorFile) error {
	os.MkdirAll(filepath.Dir(path), 0o755)
	b, _ := json.MarshalIndent(v, "", " ")
	return os.WriteFile(path, b, 0o644)
}

type evidence struct {
	PropertyID  string                 `json:"property_id"`
	Tier        string                 `json:"tier"`
	Seed        int                    `json:"seed"`
	Level       string                 `json:"level"`
	Coverage    map[string]interface{} `json:"coverage"`
	Assumptions []string               `json:"assumptions"`
	WallS       float64                `json:"wall_s"`
	Violations  int                    `json:"violations"`
}

// selfTest runs HarnessEngineSelfTest (harness/leaf/selftest.go) and returns "" when
// every assertion in it holds on its single path.
func selfTest(ld *Loader) string {
	hr := explore(ld, RunConfig{Harness: "HarnessEngineSelfTest", Pkg: modPath + "/internal/zzleaf", Solver: parseSolverKind("z3"), TimeoutMS: 10000,
		MaxSteps: 1000000, WallBudget: time.Minute, Workers: 1})
	if len(hr.Cex) > 0 {
		return fmt.Sprintf("%s fails in the engine", hr.Cex[0].Obligation)
	}
	if hr.Reached["selftest-end"] == 0 {
		return fmt.Sprintf("end not reached: outcomes=%v %v", hr.Outcomes, hr.Inconclusive)
	}
	return ""
}

// failsAgain runs one vector natively a second time and reports whether obligation f fails
// again: a failure the encoding did not predict is reported only when it is reproducible
// (oracles that involve time - settled goroutine counts, a driver that returns late - could
// otherwise raise an alarm on a loaded machine).
func failsAgain(bin, verifDir, harness string, vf vectorFile, f string) bool {
	tf, err := os.CreateTemp(filepath.Join(verifDir, "bin"), "again*.json")
	if err != nil {
		return false
	}
	tf.Close()
	defer os.Remove(tf.Name())
	writeVector(tf.Name(), vf)
	res, _, _ := runNative(bin, verifDir, harness, []string{tf.Name()}, 4*time.Minute, 1)
	if len(res) == 0 {
		return false
	}
	for _, g := range res[0].Failed {
		if g == f {
			return true
		}
	}
	return false
}

func cmdCheck(args []string) {
	fs := flag.NewFlagSet("check", flag.ExitOnError)
	verifDir := fs.String("verif", "/verif", "verif directory")
	tier := fs.String("tier", "quick", "quick|thorough")
	replay := fs.String("replay", "", "replay a vector file natively")
	only := fs.String("only", "", "run only harnesses whose name contains this")
	workers := fs.Int("workers", 16, "workers")
	noNative := fs.Bool("no-native", false, "skip native replay / differential validation")
	if len(args) < 1 {
		fatalf("usage: gosym check <property> [--tier quick|thorough] [--replay file]")
	}
	prop := args[0]
	fs.Parse(args[1:])
	if t := os.Getenv("VERIF_TIER"); t != "" && *tier == "" {
		*tier = t
	}
	seed := 0
	fmt.Sscanf(os.Getenv("VERIF_SEED"), "%d", &seed)

	if *replay != "" {
		rc := doReplay(*verifDir, prop, *replay)
		removeNative()
		os.Exit(rc)
	}
	specs, ok := checks[prop]
	if !ok {
		fatalf("no check registered for %s", prop)
	}
	t0 := time.Now()
	known, _ := loadKnown(*verifDir)
	knownByKey := map[string]knownFinding{}
	for _, k := range known {
		if k.Property == prop {
			knownByKey[k.Key] = k
		}
	}

	// one load for all harness packages of this property
	pkgSet := map[string]bool{}
	for _, s := range specs {
		pkgSet[s.Pkg] = true
	}
	var patterns []string
	for p := range pkgSet {
		patterns = append(patterns, modPath+"/internal/zz"+p)
	}
	if !pkgSet["leaf"] {
		patterns = append(patterns, modPath+"/internal/zzleaf") // the engine self-test lives there
	}
	sort.Strings(patterns)
	tl := time.Now()
	ld, err := load(*verifDir, patterns)
	if err != nil {
		fatalf("load: %v", err)
	}
	loadS := time.Since(tl).Seconds()

	natBins := map[string]string{}
	if !*noNative {
		for p := range pkgSet {
			bin, err := buildNative(*verifDir, p, false)
			if err != nil {
				fmt.Fprintf(os.Stderr, "warning: %v\n", err)
				continue
			}
			natBins[p] = bin
		}
	}

	violations := 0
	knownHit := map[string]bool{}
	var inconclusive []string
	var harnessEv []map[string]interface{}
	totalPaths, totalQueries, totalDec, totalNontrivial := 0, int64(0), 0, 0
	validated := 0
	var samples []interface{}
	funcs := map[string]bool{}
	var solverNS int64
	obligations := map[string]int{}
	reachedAll := map[string]int{}
	var unconfirmed []string
	failedObl := map[string]bool{}

	// the executor's own regression test: Go semantics it once got wrong must
	// execute as they do natively, or nothing below is believed
	if st := selfTest(ld); st != "" {
		inconclusive = append(inconclusive, "engine self-test failed: "+st)
	}

	for _, s := range specs {
		if *only != "" && !strings.Contains(s.Name, *only) {
			continue
		}
		if s.OnlyThorough && *tier != "thorough" {
			continue
		}
		params := s.Quick
		wall := s.QuickWall
		if *tier == "thorough" {
			if s.Thorough != nil {
				params = s.Thorough
			}
			wall = s.ThoroughWall
		}
		if wall == 0 {
			wall = 10 * time.Minute
			if *tier == "thorough" {
				wall = 30 * time.Minute
			}
		}
		// GOSYM_MAXWALL=<seconds>: cap on every harness's wall budget (smoke runs of a tier)
		if mw := 0; true {
			fmt.Sscanf(os.Getenv("GOSYM_MAXWALL"), "%d", &mw)
			if mw > 0 && wall > time.Duration(mw)*time.Second {
				wall = time.Duration(mw) * time.Second
			}
		}
		maxSteps := s.MaxSteps
		if maxSteps == 0 {
			maxSteps = 5000000
		}
		to := s.TimeoutMS
		if to == 0 {
			to = 20000
		}
		cfg := RunConfig{Harness: s.Name, Pkg: modPath + "/internal/zz" + s.Pkg, Params: params, Solver: parseSolverKind(s.Solver), TimeoutMS: to,
			MaxSteps: maxSteps, WallBudget: wall, Workers: *workers, ScheduleMode: s.Schedule, MapOrderMode: s.MapOrder, MapOrderFilter: s.MapOrderFilter, BudgetObligation: s.BudgetObligation, PreemptBound: s.Preempt,
			Race: s.Race, PoolDirty: s.PoolDirty}
		hr := explore(ld, cfg)
		totalPaths += hr.Paths
		totalQueries += hr.Solver.Queries
		totalDec += hr.Decisions
		solverNS += hr.Solver.WallNS
		for k := range hr.Funcs {
			funcs[k] = true
		}
		for k, n := range hr.Obligations {
			obligations[k] += n
		}
		for k, n := range hr.Reached {
			reachedAll[s.Name+":"+k] += n
		}
		nontrivial := hr.Outcomes["done"] + hr.Outcomes["panic"]
		totalNontrivial += nontrivial
		status := "clean"
		if hr.Truncated {
			status = "truncated"
			inconclusive = append(inconclusive, fmt.Sprintf("%s: exploration truncated (wall/max-paths) after %d paths", s.Name, hr.Paths))
		}
		for _, oc := range []string{"unsupported", "budget", "solver-unknown", "engine-error", "init-failed", "aborted"} {
			if hr.Outcomes[oc] > 0 {
				status = "inconclusive"
				inconclusive = append(inconclusive, fmt.Sprintf("%s: %d paths ended %s", s.Name, hr.Outcomes[oc], oc))
			}
		}
		if hr.Unknowns > 0 {
			status = "inconclusive"
			inconclusive = append(inconclusive, fmt.Sprintf("%s: %d solver answers unknown", s.Name, hr.Unknowns))
		}
		for _, d := range hr.Inconclusive {
			inconclusive = append(inconclusive, s.Name+": "+firstLines(d, 6))
		}
		if len(hr.Reached) == 0 && hr.Paths > 0 && status == "clean" {
			status = "vacuous"
			inconclusive = append(inconclusive, s.Name+": no Reach marker was reached (vacuous harness)")
		}

		// native validation of passing paths
		nat := natBins[s.Pkg]
		mismatch := 0
		if nat != "" && !s.NoNative && len(hr.PassVectors) > 0 {
			vdir := filepath.Join(*verifDir, "bin", "vec-"+s.Name)
			os.MkdirAll(vdir, 0o755)
			var files []string
			for i, pv := range hr.PassVectors {
				f := filepath.Join(vdir, fmt.Sprintf("pass%d.json", i))
				writeVector(f, vectorFile{Harness: s.Name, Pkg: s.Pkg, Vars: pv.Vars, Params: params})
				files = append(files, f)
			}
			res, out, _ := runNative(nat, *verifDir, s.Name, files, 5*time.Minute, 1)
			for i, r := range res {
				want := obsStrings(hr.PassVectors[i].Observed)
				if r.Outcome == "done" && len(r.Failed) == 0 && equalStrings(r.Obs, want) {
					validated++
				} else {
					mismatch++
					for _, f := range r.Failed {
						if _, isKnown := knownByKey[f]; !isKnown && r.Outcome == "done" &&
							failsAgain(nat, *verifDir, s.Name, vectorFile{Harness: s.Name, Pkg: s.Pkg, Vars: hr.PassVectors[i].Vars, Params: params}, f) {
							// the real code fails an obligation on an input the encoding let pass
							h := sha1.Sum([]byte(fmt.Sprint(f, hr.PassVectors[i].Vars)))
							rp := filepath.Join(*verifDir, "replays", prop, fmt.Sprintf("%s-%x.json", sanitize(f), h[:4]))
							writeVector(rp, vectorFile{Harness: s.Name, Pkg: s.Pkg, Vars: hr.PassVectors[i].Vars, Params: params, Expect: f, Kind: "assert",
								Detail: "native run of an input of a path the encoding found clean", Property: prop})
							fmt.Printf("VIOLATION property=%s replay=%s\n", prop, rp)
							fmt.Printf("  obligation=%s kind=assert harness=%s vars=%v found by the native run of a path input (the encoding did not predict it)\n", f, s.Name, hr.PassVectors[i].Vars)
							violations++
							break
						}
					}
					if mismatch <= 3 {
						inconclusive = append(inconclusive, fmt.Sprintf("%s: engine/native mismatch on a passing path: native outcome=%q failed=%v obs=%v, engine obs=%v vars=%v", s.Name, r.Outcome, r.Failed, r.Obs, want, hr.PassVectors[i].Vars))
					}
				}
			}
			if mismatch > 0 {
				status = "engine-mismatch"
				_ = out
			}
			os.RemoveAll(vdir)
		}

		// counterexamples
		for _, c := range hr.Cex {
			key := c.Obligation + "#" + c.Class
			failedObl[c.Obligation] = true
			vars := filterModel(c.Model, c.Choices)
			h := sha1.Sum([]byte(fmt.Sprint(key, vars)))
			rp := filepath.Join(*verifDir, "replays", prop, fmt.Sprintf("%s-%x.json", sanitize(key), h[:4]))
			vf := vectorFile{Harness: s.Name, Pkg: s.Pkg, Vars: vars, Params: params, Expect: key, Kind: c.Kind, Detail: firstLines(c.Detail, 3), Obs: obsStrings(c.Observed), Property: prop, Stress: s.Schedule || s.MapOrder}
			confirmed := false
			why := ""
			var nativeFailed []string
			if s.NoNative || nat == "" {
				why = "no native replay available for this harness"
			} else {
				tmpf := filepath.Join(*verifDir, "bin", fmt.Sprintf("cex-%x.json", h[:6]))
				writeVector(tmpf, vf)
				rep := 1
				if s.Schedule || s.MapOrder {
					rep = 300 // schedule- or map-order-dependent: stress the native build
				}
				natBin := nat
				if c.Kind == "race" {
					if rb, err := buildNative(*verifDir, s.Pkg, true); err == nil {
						natBin = rb
					}
				}
				nto := 4 * time.Minute
				if c.Kind == "hang" {
					nto = 30 * time.Second // a run that does not return confirms it
				}
				res, nout, _ := runNative(natBin, *verifDir, s.Name, []string{tmpf}, nto, rep)
				os.Remove(tmpf)
				r := res[0]
				if c.Kind == "race" && strings.Contains(nout, "DATA RACE") {
					confirmed = true
				}
				switch c.Kind {
				case "assert":
					for _, f := range r.Failed {
						if f == key {
							confirmed = true
						}
					}
				case "panic":
					// a panic in a goroutine the code under test started kills the native process
					confirmed = strings.HasPrefix(r.Outcome, "panic") || (strings.HasSuffix(c.Obligation, "no-panic-in-goroutine") && r.Outcome == "process-died")
				case "deadlock", "fatal", "hang":
					confirmed = r.Outcome == "process-died"
				}
				if !confirmed {
					why = fmt.Sprintf("native run: outcome=%q failed=%v", r.Outcome, r.Failed)
					nativeFailed = r.Failed
				}
			}
			if kf, isKnown := knownByKey[key]; isKnown {
				if confirmed || s.NoNative {
					if !knownHit[key] {
						fmt.Printf("KNOWN-FINDING: property=%s %s %s\n", prop, key, kf.Desc)
					}
					knownHit[key] = true
				} else {
					unconfirmed = append(unconfirmed, key+": "+why)
				}
				continue
			}
			if !confirmed && len(nativeFailed) > 0 {
				// the real code, run on the solver's input, fails an obligation of the
				// harness, only not the one the encoding predicted (the encoding and the
				// code disagree somewhere on this path): the native failure is the finding
				for _, f := range nativeFailed {
					if _, isKnown := knownByKey[f]; !isKnown && failsAgain(nat, *verifDir, s.Name, vf, f) {
						key, confirmed = f, true
						vf.Expect, vf.Kind = f, "assert"
						vf.Detail = "native run of the solver's input; the encoding predicted " + c.Obligation
						break
					}
				}
			}
			if confirmed {
				writeVector(rp, vf)
				fmt.Printf("VIOLATION property=%s replay=%s\n", prop, rp)
				fmt.Printf("  obligation=%s kind=%s harness=%s vars=%v %s\n", key, c.Kind, s.Name, vars, firstLines(c.Detail, 2))
				violations++
			} else {
				unconfirmed = append(unconfirmed, key+": "+why)
				inconclusive = append(inconclusive, fmt.Sprintf("%s: counterexample for %s did not reproduce natively (%s) vars=%v", s.Name, key, why, vars))
			}
		}
		for _, sm := range hr.Samples {
			if len(samples) < 12 {
				samples = append(samples, map[string]interface{}{"harness": s.Name, "vars": sm.Vars, "observed": obsStrings(sm.Observed), "decisions": sm.Trace})
			}
		}
		harnessEv = append(harnessEv, map[string]interface{}{
			"harness": s.Name, "params": params, "solver": cfg.Solver.String(), "status": status, "paths": hr.Paths, "outcomes": hr.Outcomes,
			"symbolic_decisions": hr.Decisions, "ssa_steps": hr.Steps, "solver_queries": hr.Solver.Queries, "sat": hr.Solver.Sat, "unsat": hr.Solver.Unsat,
			"unknown": hr.Solver.Unknown, "solver_s": float64(hr.Solver.WallNS) / 1e9, "wall_s": hr.WallS, "assert_evaluations": hr.Asserts,
			"reach_markers": hr.Reached, "counterexamples": len(hr.Cex), "schedule_mode": s.Schedule, "map_order_mode": s.MapOrder, "note": s.Note,
		})
		fmt.Fprintf(os.Stderr, "[%s] %s: %s paths=%d outcomes=%v cex=%d queries=%d wall=%.1fs\n", prop, s.Name, status, hr.Paths, hr.Outcomes, len(hr.Cex), hr.Solver.Queries, hr.WallS)
	}

	// stale known findings are fine (a repaired defect prints nothing)
	var fnList []string
	byKind := map[string]int{}
	for f := range funcs {
		switch {
		case strings.Contains(f, modPath+"/internal/zz"):
			byKind["harness"]++
		case strings.Contains(f, modPath):
			byKind["badwolf"]++
			fnList = append(fnList, f)
		default:
			byKind["stdlib_or_dep_interpreted"]++
		}
	}
	sort.Strings(fnList)
	if len(fnList) > 400 {
		fnList = fnList[:400]
	}
	if len(samples) == 0 {
		samples = append(samples, "no completed path")
	}
	ev := evidence{PropertyID: prop, Tier: *tier, Seed: seed, Level: "model_checking", WallS: time.Since(t0).Seconds(), Violations: violations}
	ev.Coverage = map[string]interface{}{
		"states":                        max1(totalPaths),
		"transitions":                   max1(totalDec),
		"traces_validated_against_impl": validated,
		"samples":                       samples,
		"evaluations":                   max1(int(totalQueries) + totalPaths),
		"distinct_nontrivial":           totalNontrivial,
		"rule":                          "states = completed symbolic paths (each a distinct decision trace, i.e. a distinct class of inputs/schedules); transitions = solver- or byte-domain-decided symbolic decisions; evaluations = SMT queries + paths; distinct_nontrivial = paths that ran to the end of the harness (done or panic) under a satisfiable path condition",
		"exhaustive":                    len(inconclusive) == 0,
		"harnesses":                     harnessEv,
		"functions_encoded_badwolf":     fnList,
		"functions_encoded_counts":      byKind,
		"obligations":                   len(obligations),
		"discharged":                    len(obligations) - len(failedObl),
		"obligation_evaluations":        obligations,
		"reach_markers":                 reachedAll,
		"inconclusive":                  inconclusive,
		"unconfirmed_counterexamples":   unconfirmed,
		"known_findings_reproduced":     sortedKeys(knownHit),
		"solver_time_s":                 float64(solverNS) / 1e9,
		"load_and_ssa_build_s":          loadS,
		"explanation":                   "bounded symbolic execution of the SSA of /repo's working tree (go/ssa, rebuilt this run); every branch on symbolic data decided by z3/cvc5 (or, for conditions over one independent byte, by exhaustive evaluation over its 256 values); assertions discharged as PC ∧ ¬assertion; counterexamples replayed natively",
	}
	ev.Assumptions = assumptionsFor(prop)
	os.MkdirAll(filepath.Join(*verifDir, "evidence"), 0o755)
	b, _ := json.MarshalIndent(ev, "", " ")
	if err := os.WriteFile(filepath.Join(*verifDir, "evidence", prop+".json"), b, 0o644); err != nil {
		fatalf("write evidence: %v", err)
	}
	for _, s := range inconclusive {
		fmt.Fprintf(os.Stderr, "INCONCLUSIVE %s\n", firstLines(s, 8))
	}
	removeNative()
	if violations > 0 {
		os.Exit(1)
	}
	fmt.Printf("OK property=%s tier=%s paths=%d queries=%d known_findings=%d inconclusive=%d wall=%.0fs\n", prop, *tier, totalPaths, totalQueries, len(knownHit), len(inconclusive), time.Since(t0).Seconds())
}

func max1(n int) int {
	if n < 1 {
		return 1
	}
	return n
}

func obsStrings(o []Observation) []string {
	out := []string{}
	for _, x := range o {
		out = append(out, x.Name+"="+x.Val)
	}
	return out
}

func equalStrings(a, b []string) bool {
	if len(a) != len(b) {
		return false
	}
	for i := range a {
		if a[i] != b[i] {
			return false
		}
	}
	return true
}

func sanitize(s string) string {
	return regexp.MustCompile(`[^A-Za-z0-9_.-]+`).ReplaceAllString(s, "_")
}

func doReplay(verifDir, prop, path string) int {
	b, err := os.ReadFile(path)
	if err != nil {
		fatalf("%v", err)
	}
	var vf vectorFile
	if err := json.Unmarshal(b, &vf); err != nil {
		fatalf("%v", err)
	}
	bin, err := buildNative(verifDir, vf.Pkg, vf.Kind == "race")
	if err != nil {
		fatalf("%v", err)
	}
	rep := 1
	if vf.Kind == "race" || vf.Stress {
		rep = 300
	}
	res, out, _ := runNative(bin, verifDir, vf.Harness, []string{path}, 4*time.Minute, rep)
	r := res[0]
	fmt.Printf("native replay of %s: outcome=%q failed=%v obs=%v\n", path, r.Outcome, r.Failed, r.Obs)
	reproduced := false
	switch vf.Kind {
	case "assert":
		for _, f := range r.Failed {
			if f == vf.Expect {
				reproduced = true
			}
		}
	case "panic":
		reproduced = strings.HasPrefix(r.Outcome, "panic") || (strings.Contains(vf.Expect, "no-panic-in-goroutine") && r.Outcome == "process-died")
	case "race":
		reproduced = strings.Contains(out, "DATA RACE")
	default:
		reproduced = r.Outcome == "process-died"
	}
	if reproduced {
		fmt.Printf("VIOLATION property=%s replay=%s\n", prop, path)
		return 1
	}
	fmt.Printf("not reproduced\n%s\n", firstLines(out, 30))
	return 0
}
