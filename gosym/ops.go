package main

import (
	"fmt"
	"go/constant"
	"go/token"
	"go/types"
	"math"
	"unicode/utf8"

	"golang.org/x/tools/go/ssa"
)

func constantBool(c *ssa.Const) bool    { return constant.BoolVal(c.Value) }
func constantString(c *ssa.Const) string {
	if c.Value.Kind() == constant.String {
		return constant.StringVal(c.Value)
	}
	// string(int const)
	return string(rune(c.Int64()))
}

func (e *Engine) unop(fr *frame, instr *ssa.UnOp, x Value) Value {
	switch instr.Op {
	case token.ARROW:
		return e.chanRecv(x.(*Chan), instr.CommaOk, instr.X.Type().Underlying().(*types.Chan).Elem())
	case token.SUB:
		switch x := x.(type) {
		case *Term:
			return e.ts.Un(opNeg, x)
		case float64:
			return -x
		case float32:
			return -x
		}
	case token.MUL:
		if sp, ok := x.(*SymPtr); ok {
			return e.selectNoCheck(sp.xs, sp.idx)
		}
		return e.load(x.(*Value))
	case token.NOT:
		return e.ts.BNot(x.(*Term))
	case token.XOR:
		return e.ts.Un(opNot, x.(*Term))
	}
	panic(fmt.Sprintf("invalid unary op %s %T", instr.Op, x))
}

func (e *Engine) binop(op token.Token, t types.Type, x, y Value) Value {
	switch op {
	case token.EQL:
		return e.equals(t, x, y)
	case token.NEQ:
		return e.ts.BNot(e.equals(t, x, y))
	}
	switch x := x.(type) {
	case *Term:
		yt := y.(*Term)
		_, signed, _ := intWidth(t)
		switch op {
		case token.ADD:
			return e.ts.Bin(opAdd, x, yt)
		case token.SUB:
			return e.ts.Bin(opSub, x, yt)
		case token.MUL:
			return e.ts.Bin(opMul, x, yt)
		case token.QUO, token.REM:
			if !e.decide(e.ts.BNot(e.ts.Cmp(opEq, yt, e.ts.Const(yt.w, 0)))) {
				e.goPanicStr("runtime error: integer divide by zero")
			}
			if op == token.QUO {
				if signed {
					return e.ts.Bin(opSDiv, x, yt)
				}
				return e.ts.Bin(opUDiv, x, yt)
			}
			if signed {
				return e.ts.Bin(opSRem, x, yt)
			}
			return e.ts.Bin(opURem, x, yt)
		case token.AND:
			if x.w == 0 {
				return e.ts.BAnd(x, yt)
			}
			return e.ts.Bin(opAnd, x, yt)
		case token.OR:
			if x.w == 0 {
				return e.ts.BOr(x, yt)
			}
			return e.ts.Bin(opOr, x, yt)
		case token.XOR:
			return e.ts.Bin(opXor, x, yt)
		case token.AND_NOT:
			return e.ts.Bin(opAnd, x, e.ts.Un(opNot, yt))
		case token.SHL, token.SHR:
			// shift count: y may have a different width and is unsigned or a
			// non-negative signed value (negative → panic)
			return e.shift(op, x, yt, signed)
		case token.LSS:
			if signed {
				return e.ts.Cmp(opSLt, x, yt)
			}
			return e.ts.Cmp(opULt, x, yt)
		case token.LEQ:
			if signed {
				return e.ts.Cmp(opSLe, x, yt)
			}
			return e.ts.Cmp(opULe, x, yt)
		case token.GTR:
			if signed {
				return e.ts.Cmp(opSLt, yt, x)
			}
			return e.ts.Cmp(opULt, yt, x)
		case token.GEQ:
			if signed {
				return e.ts.Cmp(opSLe, yt, x)
			}
			return e.ts.Cmp(opULe, yt, x)
		}
	case Str:
		ys := y.(Str)
		switch op {
		case token.ADD:
			return e.strConcat(x, ys)
		case token.LSS:
			return e.strLt(x, ys)
		case token.GTR:
			return e.strLt(ys, x)
		case token.LEQ:
			return e.ts.BNot(e.strLt(ys, x))
		case token.GEQ:
			return e.ts.BNot(e.strLt(x, ys))
		}
	case float64:
		yf, ok := y.(float64)
		if !ok {
			e.unsupported("float arithmetic with symbolic float")
		}
		switch op {
		case token.ADD:
			return x + yf
		case token.SUB:
			return x - yf
		case token.MUL:
			return x * yf
		case token.QUO:
			return x / yf
		case token.LSS:
			return e.ts.Bool(x < yf)
		case token.LEQ:
			return e.ts.Bool(x <= yf)
		case token.GTR:
			return e.ts.Bool(x > yf)
		case token.GEQ:
			return e.ts.Bool(x >= yf)
		}
	case float32:
		yf := y.(float32)
		switch op {
		case token.ADD:
			return x + yf
		case token.SUB:
			return x - yf
		case token.MUL:
			return x * yf
		case token.QUO:
			return x / yf
		case token.LSS:
			return e.ts.Bool(x < yf)
		case token.LEQ:
			return e.ts.Bool(x <= yf)
		case token.GTR:
			return e.ts.Bool(x > yf)
		case token.GEQ:
			return e.ts.Bool(x >= yf)
		}
	case FloatSym:
		e.unsupported("arithmetic on symbolic float")
	}
	panic(fmt.Sprintf("invalid binary op: %T %s %T", x, op, y))
}

func (e *Engine) shift(op token.Token, x, y *Term, signed bool) Value {
	// normalise the count to x's width, saturating
	var cnt *Term
	if y.w == x.w {
		cnt = y
	} else if y.w < x.w {
		cnt = e.ts.ZExt(y, x.w)
	} else {
		// wider count: saturate
		big := e.ts.Cmp(opULe, e.ts.Const(y.w, uint64(x.w)), y)
		cnt = e.ts.Ite(big, e.ts.Const(x.w, uint64(x.w)), e.ts.Extract(y, 0, x.w))
	}
	// (Go panics on negative signed shift counts; counts in this code base
	// are unsigned or constant, a negative constant cannot compile.)
	switch op {
	case token.SHL:
		return e.ts.Bin(opShl, x, cnt)
	default:
		if signed {
			return e.ts.Bin(opAShr, x, cnt)
		}
		return e.ts.Bin(opLShr, x, cnt)
	}
}

// conv implements type conversion.
func (e *Engine) conv(tDst, tSrc types.Type, x Value) Value {
	ut_src := tSrc.Underlying()
	ut_dst := tDst.Underlying()

	switch ut_src := ut_src.(type) {
	case *types.Pointer:
		if b, ok := ut_dst.(*types.Basic); ok && b.Kind() == types.UnsafePointer {
			return UnsafePtr{v: x}
		}
		return x
	case *types.Slice:
		// []byte/[]rune → string
		if isString(ut_dst) {
			sl := x.(Slice)
			eb, _ := ut_src.Elem().Underlying().(*types.Basic)
			if eb.Kind() == types.Uint8 {
				ts := make([]*Term, len(sl))
				for i, b := range sl {
					ts[i] = b.(*Term)
				}
				return normStr(ts)
			}
			// []rune
			var out []rune
			for _, r := range sl {
				rt := r.(*Term)
				if !rt.IsConst() {
					e.unsupported("string([]rune) with symbolic rune")
				}
				out = append(out, rune(sext(rt.c, 32)))
			}
			return mkStr(string(out))
		}
		return x
	case *types.Basic:
		if ut_src.Kind() == types.UnsafePointer {
			if _, ok := ut_dst.(*types.Pointer); ok {
				up := x.(UnsafePtr)
				if up.v == nil {
					return (*Value)(nil)
				}
				if p, ok := up.v.(*Value); ok {
					return p
				}
				e.unsupported("unsafe.Pointer → pointer of %T", up.v)
			}
			if b, ok := ut_dst.(*types.Basic); ok && b.Kind() == types.Uintptr {
				e.unsupported("unsafe.Pointer → uintptr")
			}
			return x
		}
		// string → []byte / []rune
		if ut_src.Info()&types.IsString != 0 {
			if ds, ok := ut_dst.(*types.Slice); ok {
				s := x.(Str)
				eb := ds.Elem().Underlying().(*types.Basic)
				if eb.Kind() == types.Uint8 {
					out := make(Slice, s.Len())
					for i := range out {
						out[i] = e.byteAt(s, i)
					}
					return out
				}
				if s.t != nil {
					e.unsupported("[]rune(symbolic string)")
				}
				var out Slice
				for _, r := range s.s {
					out = append(out, e.ts.Const(32, uint64(r)))
				}
				if out == nil {
					out = Slice{}
				}
				return out
			}
			if isString(ut_dst) {
				return x
			}
		}
		// numeric → string
		if isString(ut_dst) {
			if t, ok := x.(*Term); ok {
				return e.runeToStr(t)
			}
		}
		if dw, _, ok := intWidth(ut_dst); ok {
			switch x := x.(type) {
			case *Term:
				_, ssigned, _ := intWidth(ut_src)
				if dw == 0 {
					return x
				}
				if dw <= x.w {
					return e.ts.Extract(x, 0, dw)
				}
				if ssigned {
					return e.ts.SExt(x, dw)
				}
				return e.ts.ZExt(x, dw)
			case float64:
				return e.floatToInt(x, ut_dst)
			case float32:
				return e.floatToInt(float64(x), ut_dst)
			case FloatSym:
				e.unsupported("symbolic float → int")
			case UnsafePtr:
				e.unsupported("unsafe.Pointer → uintptr")
			}
		}
		if isFloat(ut_dst) {
			db := ut_dst.(*types.Basic)
			var f float64
			switch x := x.(type) {
			case *Term:
				if !x.IsConst() {
					e.unsupported("symbolic int → float")
				}
				_, ssigned, _ := intWidth(ut_src)
				if ssigned {
					f = float64(sext(x.c, x.w))
				} else {
					f = float64(x.c)
				}
			case float64:
				f = x
			case float32:
				f = float64(x)
			case FloatSym:
				if db.Kind() == types.Float64 {
					return x
				}
				e.unsupported("symbolic float conversion")
			}
			if db.Kind() == types.Float32 {
				return float32(f)
			}
			return f
		}
		if db, ok := ut_dst.(*types.Basic); ok && db.Kind() == types.UnsafePointer {
			e.unsupported("uintptr → unsafe.Pointer")
		}
	case *types.Signature, *types.Struct, *types.Array, *types.Map, *types.Chan, *types.Interface:
		return x
	}
	panic(fmt.Sprintf("unsupported conversion: %s  -> %s, dynamic type %T", tSrc, tDst, x))
}

func (e *Engine) floatToInt(f float64, dst types.Type) Value {
	w, signed, _ := intWidth(dst)
	if signed {
		return e.ts.Const(w, uint64(int64(f)))
	}
	return e.ts.Const(w, uint64(f))
}

// runeToStr implements string(rune).
func (e *Engine) runeToStr(t *Term) Str {
	if t.IsConst() {
		r := rune(sext(t.c, t.w))
		if t.w == 64 && (sext(t.c, 64) > math.MaxInt32 || sext(t.c, 64) < 0) {
			r = utf8.RuneError
		}
		return mkStr(string(r))
	}
	r := t
	if r.w < 32 {
		r = e.ts.ZExt(r, 32)
	} else if r.w > 32 {
		// values outside int32 are RuneError
		if !e.decide(e.ts.Cmp(opULe, r, e.ts.Const(r.w, 0x10FFFF))) {
			return mkStr(string(utf8.RuneError))
		}
		r = e.ts.Extract(r, 0, 32)
	}
	c := func(v uint64) *Term { return e.ts.Const(32, v) }
	b8 := func(x *Term) *Term { return e.ts.Extract(x, 0, 8) }
	shr := func(x *Term, n uint64) *Term { return e.ts.Bin(opLShr, x, c(n)) }
	and := func(x *Term, m uint64) *Term { return e.ts.Bin(opAnd, x, c(m)) }
	or := func(x *Term, m uint64) *Term { return e.ts.Bin(opOr, x, c(m)) }
	if e.decide(e.ts.Cmp(opULt, r, c(0x80))) {
		return Str{t: []*Term{b8(r)}}
	}
	if e.decide(e.ts.Cmp(opULt, r, c(0x800))) {
		return Str{t: []*Term{b8(or(shr(r, 6), 0xC0)), b8(or(and(r, 0x3F), 0x80))}}
	}
	if e.decide(e.ts.Cmp(opULt, r, c(0x10000))) {
		// surrogates → RuneError
		if e.decide(e.ts.BAnd(e.ts.Cmp(opULe, c(0xD800), r), e.ts.Cmp(opULe, r, c(0xDFFF)))) {
			return mkStr(string(utf8.RuneError))
		}
		return Str{t: []*Term{b8(or(shr(r, 12), 0xE0)), b8(or(and(shr(r, 6), 0x3F), 0x80)), b8(or(and(r, 0x3F), 0x80))}}
	}
	if e.decide(e.ts.Cmp(opULe, r, c(0x10FFFF))) {
		return Str{t: []*Term{b8(or(shr(r, 18), 0xF0)), b8(or(and(shr(r, 12), 0x3F), 0x80)), b8(or(and(shr(r, 6), 0x3F), 0x80)), b8(or(and(r, 0x3F), 0x80))}}
	}
	return mkStr(string(utf8.RuneError))
}

// ---------- builtins ----------

func (e *Engine) callBuiltin(caller *frame, pos token.Pos, fn *ssa.Builtin, args []Value) Value {
	switch fn.Name() {
	case "append":
		if len(args) == 1 {
			return args[0]
		}
		if s, ok := args[1].(Str); ok {
			// append([]byte, string...)
			bs := make(Slice, s.Len())
			for i := range bs {
				bs[i] = e.byteAt(s, i)
			}
			args[1] = bs
		}
		x := args[0].(Slice)
		y := args[1].(Slice)
		if len(y) == 0 {
			return x
		}
		if len(x)+len(y) <= cap(x) {
			// in place: journal overwritten cells
			dst := x[len(x) : len(x)+len(y)]
			for i := range y {
				e.store(&dst[i], y[i])
			}
			return x[:len(x)+len(y)]
		}
		nc := 2*cap(x) + len(y)
		if nc < 4 {
			nc = 4
		}
		out := make(Slice, len(x), nc)
		for i := range x {
			out[i] = copyVal(x[i])
		}
		for _, v := range y {
			out = append(out, copyVal(v))
		}
		// fill spare capacity lazily with zero? cells beyond len are never read before written by append/slicing
		// beyond len: reslicing up to cap exposes them, so fill with zeros of y's element kind.
		if cap(out) > len(out) {
			ext := out[len(out):cap(out)]
			z := zeroLike(e, y[0])
			for i := range ext {
				ext[i] = copyVal(z)
			}
		}
		return out
	case "copy":
		dst := args[0].(Slice)
		if s, ok := args[1].(Str); ok {
			n := len(dst)
			if s.Len() < n {
				n = s.Len()
			}
			for i := 0; i < n; i++ {
				e.store(&dst[i], e.byteAt(s, i))
			}
			return e.ts.Const(64, uint64(n))
		}
		src := args[1].(Slice)
		n := len(dst)
		if len(src) < n {
			n = len(src)
		}
		if n == 0 {
			return e.ts.Const(64, 0)
		}
		// overlapping-safe
		tmp := make([]Value, n)
		for i := 0; i < n; i++ {
			tmp[i] = copyVal(src[i])
		}
		for i := 0; i < n; i++ {
			e.store(&dst[i], tmp[i])
		}
		return e.ts.Const(64, uint64(n))
	case "close":
		e.chanClose(args[0].(*Chan))
		return nil
	case "delete":
		m := args[0].(*Map)
		if m != nil {
			e.mapDelete(m, args[1])
		}
		return nil
	case "print", "println":
		return nil
	case "len":
		switch x := args[0].(type) {
		case Str:
			return e.ts.Const(64, uint64(x.Len()))
		case Array:
			return e.ts.Const(64, uint64(len(x)))
		case *Value:
			if x == nil {
				// len of nil *array: array length from type; unreachable in practice
				e.unsupported("len(nil *array)")
			}
			return e.ts.Const(64, uint64(len((*x).(Array))))
		case Slice:
			return e.ts.Const(64, uint64(len(x)))
		case *Map:
			if x == nil {
				return e.ts.Const(64, 0)
			}
			return e.ts.Const(64, uint64(e.mapLen(x)))
		case *Chan:
			if x == nil {
				return e.ts.Const(64, 0)
			}
			return e.ts.Const(64, uint64(len(x.buf)))
		}
		panic(fmt.Sprintf("len: illegal operand: %T", args[0]))
	case "cap":
		switch x := args[0].(type) {
		case Array:
			return e.ts.Const(64, uint64(len(x)))
		case *Value:
			return e.ts.Const(64, uint64(len((*x).(Array))))
		case Slice:
			return e.ts.Const(64, uint64(cap(x)))
		case *Chan:
			if x == nil {
				return e.ts.Const(64, 0)
			}
			return e.ts.Const(64, uint64(x.cap))
		}
		panic(fmt.Sprintf("cap: illegal operand: %T", args[0]))
	case "min", "max":
		isMin := fn.Name() == "min"
		res := args[0]
		sig := fn.Type().(*types.Signature)
		t := sig.Params().At(0).Type()
		for _, a := range args[1:] {
			var less *Term
			switch a.(type) {
			case *Term, Str:
				less = e.binop(token.LSS, t, a, res).(*Term)
			default:
				less = e.binop(token.LSS, t, a, res).(*Term)
			}
			if !isMin {
				less = e.binop(token.LSS, t, res, a).(*Term)
			}
			if rt, ok := res.(*Term); ok {
				res = e.ts.Ite(less, a.(*Term), rt)
			} else if e.decide(less) {
				res = a
			}
		}
		return res
	case "clear":
		switch x := args[0].(type) {
		case *Map:
			if x != nil {
				e.mapClear(x)
			}
		case Slice:
			e.unsupported("clear(slice)")
		}
		return nil
	case "panic":
		panic(goPanic{args[0]})
	case "recover":
		return e.doRecover(caller)
	case "ssa:wrapnilchk":
		recv := args[0]
		if p, ok := recv.(*Value); ok && p == nil {
			e.goPanicStr(fmt.Sprintf("value method %s.%s called using nil pointer", describe(args[1]), describe(args[2])))
		}
		return recv
	case "String": // unsafe.String(ptr, len)
		return e.unsafeString(args[0], args[1])
	case "StringData":
		return UnsafePtrOrData(SliceData{str: args[0].(Str), isS: true})
	case "SliceData":
		return SliceData{sl: args[0].(Slice)}
	case "Slice":
		e.unsupported("unsafe.Slice")
	case "Add":
		e.unsupported("unsafe.Add")
	}
	panic("unknown built-in: " + fn.Name())
}

func UnsafePtrOrData(d SliceData) Value { return d }

func zeroLike(e *Engine, v Value) Value {
	switch v := v.(type) {
	case *Term:
		return e.ts.Const(v.w, 0)
	case Str:
		return Str{}
	case float64:
		return float64(0)
	case float32:
		return float32(0)
	case *Value:
		return (*Value)(nil)
	case Iface:
		return Iface{}
	case Slice:
		return Slice(nil)
	case *Map:
		return (*Map)(nil)
	case *Chan:
		return (*Chan)(nil)
	case Struct:
		out := make(Struct, len(v))
		for i := range v {
			out[i] = zeroLike(e, v[i])
		}
		return out
	case Array:
		out := make(Array, len(v))
		for i := range v {
			out[i] = zeroLike(e, v[i])
		}
		return out
	case *ssa.Function, *Closure:
		return (*ssa.Function)(nil)
	}
	return v
}

func (e *Engine) unsafeString(p, n Value) Value {
	ln := int(e.concInt(n))
	switch p := p.(type) {
	case SliceData:
		if p.isS {
			return e.strSlice(p.str, 0, ln)
		}
		ts := make([]*Term, ln)
		for i := 0; i < ln; i++ {
			ts[i] = p.sl[:cap(p.sl)][i].(*Term)
		}
		return normStr(ts)
	case *Value:
		if ln == 0 {
			return Str{}
		}
		e.unsupported("unsafe.String on raw pointer")
	}
	if ln == 0 {
		return Str{}
	}
	e.unsupported("unsafe.String(%T)", p)
	return nil
}

func (e *Engine) doRecover(caller *frame) Value {
	// recover() must be exactly one level beneath the deferred function
	// (two levels beneath the panicking function) to have any effect.
	if caller != nil && caller.caller != nil && caller.caller.panicking {
		caller.caller.panicking = false
		p := caller.caller.panic
		caller.caller.panic = goPanic{}
		return p.v
	}
	return Iface{}
}

// ---------- range ----------

type strIter struct {
	s   Str
	pos int
}

func (it *strIter) next(e *Engine) Tuple {
	okv := e.ts.Bool(it.pos < it.s.Len())
	if it.pos >= it.s.Len() {
		return Tuple{okv, e.ts.Const(64, 0), e.ts.Const(32, 0)}
	}
	start := it.pos
	b := e.byteAt(it.s, it.pos)
	if b.IsConst() && b.c < 0x80 {
		it.pos++
		return Tuple{okv, e.ts.Const(64, uint64(start)), e.ts.Const(32, b.c)}
	}
	if it.s.t == nil {
		r, sz := utf8.DecodeRuneInString(it.s.s[it.pos:])
		it.pos += sz
		return Tuple{okv, e.ts.Const(64, uint64(start)), e.ts.Const(32, uint64(r))}
	}
	if e.decide(e.ts.Cmp(opULt, b, e.ts.Const(8, 0x80))) {
		it.pos++
		return Tuple{okv, e.ts.Const(64, uint64(start)), e.ts.ZExt(b, 32)}
	}
	// general case: run the real utf8.DecodeRuneInString on the tail
	fn := e.ld.lookupFunc("unicode/utf8", "DecodeRuneInString")
	res := e.callSSA(nil, token.NoPos, fn, []Value{e.strSlice(it.s, it.pos, it.s.Len())}, nil).(Tuple)
	sz := int(e.concInt(res[1]))
	it.pos += sz
	return Tuple{okv, e.ts.Const(64, uint64(start)), res[0]}
}

func (e *Engine) rangeIter(x Value, t types.Type) iterator {
	switch x := x.(type) {
	case *Map:
		return e.mapIter(x)
	case Str:
		return &strIter{s: x}
	}
	panic(fmt.Sprintf("cannot range over %T", x))
}

func (e *Engine) lookup(instr *ssa.Lookup, x, idx Value) Value {
	switch x := x.(type) {
	case *Map:
		var v Value
		var ok bool
		if x != nil {
			v, ok = e.mapLookup(x, idx)
		}
		if !ok {
			v = e.zero(instr.X.Type().Underlying().(*types.Map).Elem())
		} else {
			v = copyVal(v)
		}
		if instr.CommaOk {
			return Tuple{v, e.ts.Bool(ok)}
		}
		return v
	}
	panic(fmt.Sprintf("unexpected x type in Lookup: %T", x))
}
