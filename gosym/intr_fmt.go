package main

// fmt: Sprintf/Sprint/Errorf/Fprintf for the verbs this code base uses.
// Stringer/error arguments are dispatched to the interpreted method.

import (
	"fmt"
	"go/token"
	"go/types"
	"sort"
	"strconv"
	"strings"

	"golang.org/x/tools/go/ssa"
)

func (e *Engine) setupFmtIntrinsics() {
	in := e.intr
	in["fmt.Sprintf"] = func(e *Engine, fr *frame, a []Value) Value {
		return e.sprintf(a[0].(Str), a[1].(Slice))
	}
	in["fmt.Errorf"] = func(e *Engine, fr *frame, a []Value) Value {
		return e.newErrorStr(&LazyStr{format: a[0].(Str), args: append(Slice(nil), a[1].(Slice)...)})
	}
	in["fmt.Sprint"] = func(e *Engine, fr *frame, a []Value) Value {
		return e.sprint(a[0].(Slice), false)
	}
	in["fmt.Sprintln"] = func(e *Engine, fr *frame, a []Value) Value {
		return e.strConcat(e.sprint(a[0].(Slice), true), mkStr("\n"))
	}
	in["fmt.Println"] = func(e *Engine, fr *frame, a []Value) Value {
		return Tuple{e.c64(0), Iface{}}
	}
	in["fmt.Printf"] = in["fmt.Println"]
	in["fmt.Print"] = in["fmt.Println"]
	in["fmt.Fprintf"] = func(e *Engine, fr *frame, a []Value) Value {
		s := e.sprintf(a[1].(Str), a[2].(Slice))
		return e.writeTo(fr, a[0].(Iface), s)
	}
	in["fmt.Fprint"] = func(e *Engine, fr *frame, a []Value) Value {
		return e.writeTo(fr, a[0].(Iface), e.sprint(a[1].(Slice), false))
	}
	in["fmt.Fprintln"] = func(e *Engine, fr *frame, a []Value) Value {
		return e.writeTo(fr, a[0].(Iface), e.strConcat(e.sprint(a[1].(Slice), true), mkStr("\n")))
	}
	in["(*errors.errorString).Error"] = func(e *Engine, fr *frame, a []Value) Value {
		p := a[0].(*Value)
		if p == nil {
			e.goPanicStr("runtime error: invalid memory address or nil pointer dereference")
		}
		st := (*p).(Struct)
		return e.force(st[0])
	}
}

// writeTo calls w.Write([]byte(s)).
func (e *Engine) writeTo(fr *frame, w Iface, s Str) Value {
	if w.t == nil {
		e.goPanicStr("runtime error: invalid memory address or nil pointer dereference")
	}
	m := e.findMethod(w.t, "Write")
	if m == nil {
		e.unsupported("Fprintf to %v without Write", w.t)
	}
	bs := make(Slice, s.Len())
	for i := range bs {
		bs[i] = e.byteAt(s, i)
	}
	return e.callSSA(fr, token.NoPos, m, []Value{w.v, bs}, nil)
}

func (e *Engine) sprint(args Slice, spaces bool) Str {
	out := Str{}
	for i, a := range args {
		it := a.(Iface)
		if i > 0 {
			// Sprint adds spaces between operands when neither is a string
			addSpace := spaces
			if !spaces {
				_, s1 := it.v.(Str)
				_, s0 := args[i-1].(Iface).v.(Str)
				addSpace = !s1 && !s0 && it.t != nil && args[i-1].(Iface).t != nil
			}
			if addSpace {
				out = e.strConcat(out, mkStr(" "))
			}
		}
		out = e.strConcat(out, e.formatArg('v', fmtFlags{}, it))
	}
	return out
}

type fmtFlags struct {
	plus, sharp, zero, minus, space bool
	plusV                           bool // %+v: field names, not signs (fmt clears plus and sets plusV)
	width                           int
	hasWidth                        bool
	prec                            int
	hasPrec                         bool
}

func (e *Engine) sprintf(format Str, args Slice) Str {
	f := format.s
	var terms []*Term
	if format.t != nil {
		// A format with symbolic bytes: every byte that matters to the verb syntax
		// is made concrete by a solver-decided fork ('%', flags, digits, '.'); any
		// other byte stays symbolic and is copied to the output as it is.
		terms = format.t
		b := make([]byte, len(terms))
		for i, t := range terms {
			if t.IsConst() {
				b[i] = byte(t.c)
				continue
			}
			b[i] = 0x01 // opaque: none of the special characters
			for _, c := range []byte("%+#0- 123456789.") {
				if e.decide(e.ts.Cmp(opEq, t, e.ts.Const(8, uint64(c)))) {
					b[i] = c
					break
				}
			}
		}
		f = string(b)
	}
	mkStr := func(x string) Str { return Str{s: x} }
	lit := func(i, j int) Str {
		if terms == nil {
			return mkStr(f[i:j])
		}
		return normStr(append([]*Term(nil), terms[i:j]...))
	}
	out := Str{}
	argi := 0
	for i := 0; i < len(f); {
		j := strings.IndexByte(f[i:], '%')
		if j < 0 {
			out = e.strConcat(out, lit(i, len(f)))
			break
		}
		out = e.strConcat(out, lit(i, i+j))
		i += j + 1
		if i >= len(f) {
			out = e.strConcat(out, mkStr("%!(NOVERB)"))
			break
		}
		var fl fmtFlags
	flags:
		for ; i < len(f); i++ {
			switch f[i] {
			case '+':
				fl.plus = true
			case '#':
				fl.sharp = true
			case '0':
				fl.zero = true
			case '-':
				fl.minus = true
			case ' ':
				fl.space = true
			default:
				break flags
			}
		}
		for i < len(f) && f[i] >= '0' && f[i] <= '9' {
			fl.width = fl.width*10 + int(f[i]-'0')
			fl.hasWidth = true
			i++
		}
		if i < len(f) && f[i] == '.' {
			i++
			fl.hasPrec = true
			for i < len(f) && f[i] >= '0' && f[i] <= '9' {
				fl.prec = fl.prec*10 + int(f[i]-'0')
				i++
			}
		}
		if i >= len(f) {
			out = e.strConcat(out, mkStr("%!(NOVERB)"))
			break
		}
		verb := f[i]
		i++
		if verb == '%' {
			out = e.strConcat(out, mkStr("%"))
			continue
		}
		if argi >= len(args) {
			out = e.strConcat(e.strConcat(e.strConcat(out, mkStr("%!")), lit(i-1, i)), mkStr("(MISSING)"))
			continue
		}
		if verb == 0x01 {
			e.unsupported("symbolic format verb")
		}
		arg := args[argi].(Iface)
		argi++
		s := e.formatArg(verb, fl, arg)
		out = e.strConcat(out, s)
	}
	if argi < len(args) {
		out = e.strConcat(out, mkStr("%!(EXTRA "))
		for k := argi; k < len(args); k++ {
			if k > argi {
				out = e.strConcat(out, mkStr(", "))
			}
			it := args[k].(Iface)
			if it.t == nil {
				out = e.strConcat(out, mkStr("<nil>"))
			} else {
				out = e.strConcat(out, mkStr(it.t.String()+"="))
				out = e.strConcat(out, e.formatArg('v', fmtFlags{}, it))
			}
		}
		out = e.strConcat(out, mkStr(")"))
	}
	return out
}

func (e *Engine) pad(s Str, fl fmtFlags) Str {
	if !fl.hasWidth || s.Len() >= fl.width {
		return s
	}
	n := fl.width - s.Len()
	if fl.minus {
		return e.strConcat(s, mkStr(strings.Repeat(" ", n)))
	}
	return e.strConcat(mkStr(strings.Repeat(" ", n)), s)
}

func (e *Engine) callMethodStr(it Iface, name string) (Str, bool) {
	m := e.findMethod(it.t, name)
	if m == nil {
		return Str{}, false
	}
	sig := m.Signature
	if sig.Params().Len() != 0 || sig.Results().Len() != 1 || !isString(sig.Results().At(0).Type()) {
		return Str{}, false
	}
	// nil pointer receivers print <nil> like fmt does (it recovers the panic)
	if p, ok := it.v.(*Value); ok && p == nil {
		return mkStr("<nil>"), true
	}
	r := e.callSSA(e.top, token.NoPos, m, []Value{it.v}, nil) // the frame that called fmt is the caller (complete stacks)
	return e.force(r), true
}

func (e *Engine) formatArg(verb byte, fl fmtFlags, it Iface) Str {
	if verb == 'v' && fl.plus {
		fl.plus, fl.plusV = false, true
	}
	if verb == 'T' {
		if it.t == nil {
			return mkStr("<nil>")
		}
		return mkStr(typeString(it.t))
	}
	if it.t == nil {
		if verb == 'v' {
			return e.pad(mkStr("<nil>"), fl)
		}
		return mkStr("%!" + string(verb) + "(<nil>)")
	}
	// error / Stringer
	if verb == 'v' || verb == 's' || verb == 'q' {
		if !(fl.sharp && verb == 'v') {
			if s, ok := e.callMethodStr(it, "Error"); ok {
				return e.fmtString(verb, fl, s)
			}
			if s, ok := e.callMethodStr(it, "String"); ok {
				return e.fmtString(verb, fl, s)
			}
		}
	}
	return e.formatValue(verb, fl, it.t, it.v, 0)
}

func typeString(t types.Type) string {
	return types.TypeString(t, func(p *types.Package) string { return p.Name() })
}

func (e *Engine) fmtString(verb byte, fl fmtFlags, s Str) Str {
	switch verb {
	case 'v', 's':
		if fl.sharp && verb == 'v' {
			return e.quote(s)
		}
		if fl.hasPrec && fl.prec < s.Len() {
			s = e.strSlice(s, 0, fl.prec)
		}
		return e.pad(s, fl)
	case 'q':
		return e.pad(e.quote(s), fl)
	case 'x':
		if s.t != nil {
			e.unsupported("%%x of symbolic string")
		}
		return e.pad(mkStr(fmt.Sprintf("%x", s.s)), fl)
	}
	if s.t != nil {
		return mkStr("%!" + string(verb) + "(string=<symbolic>)")
	}
	return mkStr("%!" + string(verb) + "(string=" + s.s + ")")
}

func (e *Engine) quote(s Str) Str {
	if s.t == nil {
		return mkStr(strconv.Quote(s.s))
	}
	fn := e.ld.lookupFunc("strconv", "Quote")
	return e.callSSA(nil, token.NoPos, fn, []Value{s}, nil).(Str)
}

func (e *Engine) formatValue(verb byte, fl fmtFlags, t types.Type, v Value, depth int) Str {
	switch x := v.(type) {
	case Str:
		return e.fmtString(verb, fl, x)
	case *Term:
		if x.w == 0 {
			if verb != 'v' && verb != 't' {
				return mkStr("%!" + string(verb) + "(bool)")
			}
			if e.decide(x) {
				return e.pad(mkStr("true"), fl)
			}
			return e.pad(mkStr("false"), fl)
		}
		_, signed, _ := intWidth(t)
		return e.fmtInt(verb, fl, x, signed)
	case float64:
		return e.fmtFloat(verb, fl, x, 64)
	case float32:
		return e.fmtFloat(verb, fl, float64(x), 32)
	case FloatSym:
		e.unsupported("formatting a symbolic float")
	case Iface:
		if x.t == nil {
			return mkStr("<nil>")
		}
		return e.formatArg(verb, fl, x)
	case *Value:
		if x == nil {
			return mkStr("<nil>")
		}
		if depth == 0 {
			if pt, ok := t.Underlying().(*types.Pointer); ok {
				switch pt.Elem().Underlying().(type) {
				case *types.Struct, *types.Array, *types.Slice, *types.Map:
					return e.strConcat(mkStr("&"), e.formatValue(verb, fl, pt.Elem(), *x, depth+1))
				}
			}
		}
		return mkStr(fmt.Sprintf("0xc%09x", uint64(e.ptrID(x))))
	case Slice:
		st := t.Underlying().(*types.Slice)
		if eb, ok := st.Elem().Underlying().(*types.Basic); ok && eb.Kind() == types.Uint8 && (verb == 's' || verb == 'q' || verb == 'x') {
			ts := make([]*Term, len(x))
			for i := range x {
				ts[i] = x[i].(*Term)
			}
			return e.fmtString(verb, fl, normStr(ts))
		}
		if fl.sharp && verb == 'v' {
			e.unsupported("%%#v of slice")
		}
		out := mkStr("[")
		for i, el := range x {
			if i > 0 {
				out = e.strConcat(out, mkStr(" "))
			}
			out = e.strConcat(out, e.formatElem(verb, fl, st.Elem(), el, depth+1))
		}
		return e.strConcat(out, mkStr("]"))
	case Array:
		at := t.Underlying().(*types.Array)
		out := mkStr("[")
		for i, el := range x {
			if i > 0 {
				out = e.strConcat(out, mkStr(" "))
			}
			out = e.strConcat(out, e.formatElem(verb, fl, at.Elem(), el, depth+1))
		}
		return e.strConcat(out, mkStr("]"))
	case Struct:
		st := t.Underlying().(*types.Struct)
		out := mkStr("{")
		for i, el := range x {
			if i > 0 {
				out = e.strConcat(out, mkStr(" "))
			}
			if fl.plus || fl.plusV || fl.sharp {
				out = e.strConcat(out, mkStr(st.Field(i).Name()+":"))
			}
			out = e.strConcat(out, e.formatElem(verb, fl, st.Field(i).Type(), el, depth+1))
		}
		return e.strConcat(out, mkStr("}"))
	case *Map:
		if x == nil || x.live == 0 {
			return mkStr("map[]")
		}
		// fmt prints maps sorted by key; keys must be concrete strings or integers here
		type kv struct {
			ks  string
			ki  int64
			ent *mapEntry
		}
		var kvs []kv
		isStr := false
		for _, en := range x.entries {
			if en.deleted {
				continue
			}
			switch k := en.key.(type) {
			case Str:
				if k.t != nil {
					e.unsupported("formatting a map with a symbolic key")
				}
				isStr = true
				kvs = append(kvs, kv{ks: k.s, ent: en})
			case *Term:
				if !k.IsConst() {
					e.unsupported("formatting a map with a symbolic key")
				}
				kvs = append(kvs, kv{ki: sext(k.c, k.w), ent: en})
			default:
				e.unsupported("formatting a map keyed by %T", en.key)
			}
		}
		sort.Slice(kvs, func(i, j int) bool {
			if isStr {
				return kvs[i].ks < kvs[j].ks
			}
			return kvs[i].ki < kvs[j].ki
		})
		out := mkStr("map[")
		for i, p := range kvs {
			if i > 0 {
				out = e.strConcat(out, mkStr(" "))
			}
			out = e.strConcat(out, e.formatElem(verb, fl, x.t.Key(), p.ent.key, depth+1))
			out = e.strConcat(out, mkStr(":"))
			out = e.strConcat(out, e.formatElem(verb, fl, x.t.Elem(), p.ent.val, depth+1))
		}
		return e.strConcat(out, mkStr("]"))
	case *ssa.Function, *Closure:
		return mkStr("0xfunc")
	case *Chan:
		return mkStr("0xchan")
	}
	e.unsupported("fmt: verb %%%c on %T (%v)", verb, v, t)
	return Str{}
}

// formatElem formats a nested operand: interface elements and elements with
// Error/String methods are handled like top-level operands.
func (e *Engine) formatElem(verb byte, fl fmtFlags, t types.Type, v Value, depth int) Str {
	fl.hasWidth = false
	if it, ok := v.(Iface); ok {
		return e.formatArg(verb, fl, it)
	}
	if verb == 'v' || verb == 's' || verb == 'q' {
		// exported-or-not does not matter for slices elements; fmt uses
		// handleMethods when the value is obtainable via Interface()
		it := Iface{t: t, v: v}
		if _, isPtrOrNamed := t.(*types.Named); isPtrOrNamed || isPtr(t) {
			if s, ok := e.callMethodStr(it, "Error"); ok {
				return e.fmtString(verb, fl, s)
			}
			if s, ok := e.callMethodStr(it, "String"); ok {
				return e.fmtString(verb, fl, s)
			}
		}
	}
	return e.formatValue(verb, fl, t, v, depth)
}

func isPtr(t types.Type) bool { _, ok := t.Underlying().(*types.Pointer); return ok }

func (e *Engine) ptrID(p *Value) int {
	if e.ptrIDs == nil {
		e.ptrIDs = map[*Value]int{}
	}
	if id, ok := e.ptrIDs[p]; ok {
		return id
	}
	id := len(e.ptrIDs) + 1
	e.ptrIDs[p] = id
	return id
}

func (e *Engine) fmtFloat(verb byte, fl fmtFlags, f float64, bits int) Str {
	var s string
	switch verb {
	case 'v', 'g':
		prec := -1
		if fl.hasPrec {
			prec = fl.prec
		}
		s = strconv.FormatFloat(f, 'g', prec, bits)
	case 'f', 'F', 'e', 'E':
		prec := 6
		if fl.hasPrec {
			prec = fl.prec
		}
		s = strconv.FormatFloat(f, verb, prec, bits)
	default:
		return mkStr("%!" + string(verb) + "(float64=" + strconv.FormatFloat(f, 'g', -1, 64) + ")")
	}
	if fl.plus && f >= 0 {
		s = "+" + s
	}
	if fl.hasWidth && len(s) < fl.width {
		if fl.zero && !fl.minus {
			neg := ""
			if strings.HasPrefix(s, "-") || strings.HasPrefix(s, "+") {
				neg, s = s[:1], s[1:]
			}
			if strings.ContainsAny(s, "IN") { // Inf/NaN are padded with spaces
				return e.pad(mkStr(neg+s), fl)
			}
			s = neg + strings.Repeat("0", fl.width-len(s)-len(neg)) + s
		} else {
			return e.pad(mkStr(s), fl)
		}
	}
	return mkStr(s)
}

// fmtInt formats an integer term in decimal (or hex for %x on concrete).
func (e *Engine) fmtInt(verb byte, fl fmtFlags, x *Term, signed bool) Str {
	switch verb {
	case 'v', 'd':
	case 'x', 'X', 'o', 'b', 'c', 'q', 'U':
		if !x.IsConst() {
			e.unsupported("%%%c of symbolic integer", verb)
		}
		var s string
		f := "%" + string(verb)
		if signed {
			s = fmt.Sprintf(f, sext(x.c, x.w))
		} else {
			s = fmt.Sprintf(f, x.c)
		}
		return e.pad(mkStr(s), fl)
	default:
		return mkStr("%!" + string(verb) + "(int=?)")
	}
	if x.IsConst() {
		var s string
		if signed {
			s = strconv.FormatInt(sext(x.c, x.w), 10)
		} else {
			s = strconv.FormatUint(x.c, 10)
		}
		return e.padInt(mkStr(s), fl)
	}
	return e.padInt(e.symDecimal(x, signed), fl)
}

func (e *Engine) padInt(s Str, fl fmtFlags) Str {
	if fl.plus {
		if s.Len() > 0 {
			first := e.byteAt(s, 0)
			if !(first.IsConst() && first.c == '-') {
				s = e.strConcat(mkStr("+"), s)
			}
		}
	}
	if !fl.hasWidth || s.Len() >= fl.width {
		return s
	}
	n := fl.width - s.Len()
	if fl.zero && !fl.minus {
		// sign first, then zeros
		first := e.byteAt(s, 0)
		if first.IsConst() && (first.c == '-' || first.c == '+') {
			return e.strConcat(e.strConcat(e.strSlice(s, 0, 1), mkStr(strings.Repeat("0", n))), e.strSlice(s, 1, s.Len()))
		}
		return e.strConcat(mkStr(strings.Repeat("0", n)), s)
	}
	return e.pad(s, fl)
}

// symDecimal renders a symbolic integer in decimal.  The sign and the digit
// count are decisions (forks); the digits are witness variables d_i with
// |x| = Σ d_i·10^i, d_i ≤ 9, leading digit ≠ 0 — the unique decimal
// representation, stated to the solver instead of computed by division.
func (e *Engine) symDecimal(x *Term, signed bool) Str {
	w := x.w
	mag := x
	neg := false
	if signed {
		if e.decide(e.ts.Cmp(opSLt, x, e.ts.Const(w, 0))) {
			neg = true
			mag = e.ts.Un(opNeg, x) // two's complement magnitude (MinInt stays itself as unsigned)
		}
	}
	// widen to 64 bits unsigned magnitude
	m64 := e.ts.ZExt(mag, 64)
	// number of digits: fork
	maxDigits := 20
	switch w {
	case 8:
		maxDigits = 3
	case 16:
		maxDigits = 5
	case 32:
		maxDigits = 10
	}
	nd := 1
	pow := uint64(10)
	for nd < maxDigits {
		// mag < 10^nd ?
		if e.decide(e.ts.Cmp(opULt, m64, e.ts.Const(64, pow))) {
			break
		}
		nd++
		if nd == 20 {
			break
		}
		pow *= 10
	}
	e.witnessCount++
	digits := make([]*Term, nd) // digits[0] most significant
	sum := e.ts.Const(64, 0)
	p := uint64(1)
	for i := nd - 1; i >= 0; i-- {
		d := e.newVar(fmt.Sprintf("~dig%d_%d", e.witnessCount, nd-1-i), 8)
		digits[i] = d
		e.assume(e.ts.Cmp(opULe, d, e.ts.Const(8, 9)))
		sum = e.ts.Bin(opAdd, sum, e.ts.Bin(opMul, e.ts.ZExt(d, 64), e.ts.Const(64, p)))
		p *= 10
	}
	e.assume(e.ts.Cmp(opEq, sum, m64))
	// no overflow in the sum: for nd == 20 the leading digit is 1 and the rest
	// must keep the value below 2^64: stated via the equality on 64 bits plus
	// leading digit ≤ 1
	if nd == 20 {
		e.assume(e.ts.Cmp(opULe, digits[0], e.ts.Const(8, 1)))
	}
	if nd > 1 {
		e.assume(e.ts.BNot(e.ts.Cmp(opEq, digits[0], e.ts.Const(8, 0))))
	}
	e.invalidateModel()
	out := make([]*Term, 0, nd+1)
	if neg {
		out = append(out, e.ts.Const(8, '-'))
	}
	for _, d := range digits {
		out = append(out, e.ts.Bin(opAdd, d, e.ts.Const(8, '0')))
	}
	return Str{t: out}
}
