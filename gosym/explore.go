package main

// Exploration: depth-first over decision traces by re-execution, 16 workers,
// each with its own engine (term store, solver process, program heap).

import (
	"fmt"
	"os"
	"runtime/debug"
	"sort"
	"strings"
	"sync"
	"time"

	"golang.org/x/tools/go/ssa"
)

var raceEnabled = false

type RunConfig struct {
	Harness      string // function name in the harness package
	Pkg          string // harness package path
	Params       map[string]int
	Solver       SolverKind
	TimeoutMS    int
	MaxSteps     int
	MaxPaths     int
	WallBudget   time.Duration
	Workers      int
	ScheduleMode bool
	MapOrderMode bool
	MapOrderFilter string
	BudgetObligation string // non-empty: exhausting MaxSteps is a violation of this obligation
	PreemptBound int
	PoolDirty    bool
	Race         bool
	StopOnCex    bool
	Debug        bool
	NoByteDom    bool
	XCheck       bool
}

type HarnessResult struct {
	Config       RunConfig
	Paths        int
	Outcomes     map[string]int
	Cex          []Counterexample
	Reached      map[string]int
	Obligations  map[string]int
	Asserts      int
	Decisions    int
	Steps        int64
	Unknowns     int
	Inconclusive []string // details of unsupported / budget / unknown paths
	Truncated    bool
	Solver       SolverStats
	Funcs        map[string]bool
	Samples      []PathSample
	WallS        float64
	MaxQueue     int
	PassVectors  []PathSample
}

type PathSample struct {
	Outcome  string            `json:"outcome"`
	Vars     map[string]uint64 `json:"vars"`
	Observed []Observation     `json:"observed,omitempty"`
	Trace    int               `json:"decisions"`
}

func newEngine(ld *Loader, cfg RunConfig, stats *SolverStats) *Engine {
	e := &Engine{ld: ld, prog: ld.prog, ts: newTermStore(), globals: map[*ssa.Global]*Value{}, fnInfo: map[*ssa.Function]*fnInfo{}}
	e.solver = newSolver(cfg.Solver, e.ts, cfg.TimeoutMS, stats)
	e.maxSteps = cfg.MaxSteps
	e.params = cfg.Params
	e.scheduleMode = cfg.ScheduleMode
	e.mapOrderMode = cfg.MapOrderMode
	e.mapOrderFilter = cfg.MapOrderFilter
	e.preemptBound = cfg.PreemptBound
	e.poolDirty = cfg.PoolDirty
	e.cexSeen = map[string]bool{}
	e.fnsSeen = map[string]bool{}
	e.trackFns = map[string]bool{}
	e.debug = cfg.Debug
	e.ttCache = map[int32]byteSet{}
	e.varsMemo = map[int32][]int32{}
	e.ufIDs = map[string]int32{}
	e.qcache = map[string]cachedQuery{}
	e.noByteDom = cfg.NoByteDom
	e.xcheck = cfg.XCheck
	e.errorStringT = types_NewPointer(ld.lookupType("errors", "errorString"))
	e.setupIntrinsics()
	return e
}

// initAllowed: packages whose initialisers are interpreted.
func initAllowed(path string) bool {
	if strings.HasPrefix(path, modPath) {
		return true
	}
	switch path {
	case "strconv", "strings", "bytes", "unicode", "unicode/utf8", "unicode/utf16", "sort", "slices", "bufio",
		"encoding/binary", "encoding/hex", "container/list", "time", "regexp", "regexp/syntax", "math", "math/bits", "io",
		"golang.org/x/sync/errgroup", "golang.org/x/sync/semaphore", "github.com/pborman/uuid", "github.com/google/uuid", "context", "internal/oserror", "io/fs", "path", "internal/bytealg", "internal/stringslite", "cmp", "iter", "maps", "internal/itoa":
		return true
	}
	return false
}

func (e *Engine) initProgram() (err error) {
	defer func() {
		if r := recover(); r != nil {
			if u, ok := r.(unsupportedErr); ok {
				r = "unsupported: " + u.msg
			}
			if gp, ok := r.(goPanic); ok {
				r = "go panic: " + e.panicValueString(gp.v)
			}
			err = fmt.Errorf("package initialisation failed: %v\n%s", r, e.stackString())
			if os.Getenv("GOSYM_HOSTSTACK") != "" {
				err = fmt.Errorf("%v\n%s", err, debug.Stack())
			}
		}
	}()
	for _, p := range e.prog.AllPackages() {
		for _, m := range p.Members {
			if g, ok := m.(*ssa.Global); ok {
				cell := new(Value)
				*cell = e.zero(deref(g.Type()))
				e.globals[g] = cell
			}
		}
	}
	// globals that a skipped initialiser assigns are poisoned: their zero value is not their value
	e.poisoned = map[*ssa.Global]bool{}
	for _, p := range e.prog.AllPackages() {
		if p.Pkg == nil || initAllowed(p.Pkg.Path()) {
			continue
		}
		init := p.Func("init")
		if init == nil {
			continue
		}
		for _, b := range init.Blocks {
			for _, in := range b.Instrs {
				st, ok := in.(*ssa.Store)
				if !ok {
					continue
				}
				addr := st.Addr
				for {
					switch a := addr.(type) {
					case *ssa.IndexAddr:
						addr = a.X
						continue
					case *ssa.FieldAddr:
						addr = a.X
						continue
					}
					break
				}
				if g, ok := addr.(*ssa.Global); ok && g.Name() != "init$guard" {
					e.poisoned[g] = true
				}
			}
		}
	}
	e.res = &PathResult{Reached: map[string]bool{}}
	e.varCount = map[string]int{}
	e.dom = map[int32]byteSet{}
	e.entangled = map[int32]bool{}
	e.ufParent = map[int32]int32{}
	e.multiConj = map[int32][]*Term{}
	e.sha1OutTerm = map[int32]sha1Ref{}
	e.sha1OutConc = map[string]int{}
	e.setModel(Model{})
	e.resetSched()
	e.inInit = true
	e.maxSteps = 1 << 40
	e.solver.NewPath()
	for _, p := range e.ld.initOrder {
		if !initAllowed(p.Pkg.Path()) {
			continue
		}
		init := p.Func("init")
		if init == nil {
			continue
		}
		e.curInitPkg = p
		e.callSSA(nil, 0, init, nil, nil)
	}
	e.inInit = false
	return nil
}

// runPath executes the harness once along prefix p.
func (e *Engine) runPath(h *ssa.Function, p Prefix, cfg RunConfig) (res *PathResult) {
	e.resetPath(p)
	e.resetSched()
	e.spawnDaemons()
	e.maxSteps = cfg.MaxSteps
	e.journal = e.journal[:0]
	e.journaling = true
	e.pendingObs = e.pendingObs[:0]
	e.poolItems = map[*Value][]Value{}
	e.syncMaps = nil
	e.poolVCs = map[*Value][]vclock{}
	e.ptrIDs = nil
	e.witnessCount = 0
	e.races = e.races[:0]
	e.epochs = nil
	res = e.res
	defer func() {
		r := recover()
		switch r := r.(type) {
		case nil:
			res.Outcome = "done"
		case pathEnd:
			res.Outcome = r.reason
			if strings.HasPrefix(r.reason, "deadlock") {
				res.Outcome = "deadlock"
				res.Detail = r.reason
				e.safeRecordFailure("deadlock", h.Name()+"/no-deadlock", r.reason)
			} else if strings.HasPrefix(r.reason, "panic-in-goroutine") {
				res.Outcome = "panic-in-goroutine"
				res.Detail = r.reason
				e.safeRecordFailure("panic", h.Name()+"/no-panic-in-goroutine", r.reason)
			} else if strings.HasPrefix(r.reason, "fatal error") {
				res.Outcome = "fatal"
				res.Detail = r.reason
				e.safeRecordFailure("fatal", h.Name()+"/no-fatal", r.reason)
			} else if r.reason == "budget" && cfg.BudgetObligation != "" {
				// the harness states termination as an obligation: running out of the
				// step budget is a counterexample (confirmed natively by a run that
				// does not return), not an inconclusive path
				res.Outcome = "hang"
				res.Detail = fmt.Sprintf("no termination within %d SSA steps\n%s", cfg.MaxSteps, e.stackString())
				e.safeRecordFailure("hang", cfg.BudgetObligation, res.Detail)
			} else if r.reason == "budget" {
				res.Detail = fmt.Sprintf("step budget of %d exhausted\n%s", cfg.MaxSteps, e.stackString())
			}
		case goPanic:
			res.Outcome = "panic"
			res.Detail = e.panicValueString(r.v) + "\n" + e.stackString()
			e.safeRecordFailure("panic", h.Name()+"/no-panic", res.Detail)
		case unsupportedErr:
			res.Outcome = "unsupported"
			res.Detail = r.msg + "\n" + e.stackString()
		case abortG:
			res.Outcome = "aborted"
		default:
			res.Outcome = "engine-error"
			res.Detail = fmt.Sprintf("%v\n%s\n%s", r, e.stackString(), debug.Stack())
		}
		if len(e.races) > 0 {
			res.Outcome = "race"
			res.Detail = e.races[0].detail
			e.safeRecordFailure("race", h.Name()+"/no-data-race", e.races[0].detail)
		}
		res.Trace = append([]int32(nil), e.trace...)
		res.Steps = e.steps
		res.Decisions = len(e.trace)
		if res.Outcome == "done" || len(res.Cex) > 0 {
			func() {
				defer func() { recover() }()
				if res.Outcome == "done" {
					e.ensureModel()
				}
				if e.modelOK {
					res.Model = e.model
					res.Observed = e.renderObs(e.model)
				}
			}()
		}
		for i := range res.Cex {
			func() {
				defer func() { recover() }()
				res.Cex[i].Observed = e.renderObs(res.Cex[i].Model)
				res.Cex[i].Choices = append([]Choice(nil), res.Choices...)
			}()
		}
		e.killAll()
		e.journaling = false
		for i := len(e.journal) - 1; i >= 0; i-- {
			u := e.journal[i]
			if u.f != nil {
				u.f()
			} else {
				*u.p = u.old
			}
		}
		e.journal = e.journal[:0]
	}()
	e.callSSA(nil, 0, h, nil, nil)
	return res
}

func (e *Engine) safeRecordFailure(kind, obl, detail string) {
	defer func() { recover() }()
	e.noteObligation(obl)
	e.recordFailure(kind, obl, detail)
}

// explore runs the harness over all paths.
func explore(ld *Loader, cfg RunConfig) *HarnessResult {
	t0 := time.Now()
	pkg := ld.byPath[cfg.Pkg]
	if pkg == nil {
		fatalf("harness package %s not loaded", cfg.Pkg)
	}
	h := pkg.Func(cfg.Harness)
	if h == nil {
		fatalf("harness %s not found in %s", cfg.Harness, cfg.Pkg)
	}
	raceEnabled = cfg.Race
	hr := &HarnessResult{Config: cfg, Outcomes: map[string]int{}, Reached: map[string]int{}, Obligations: map[string]int{}, Funcs: map[string]bool{}}
	var mu sync.Mutex
	cond := sync.NewCond(&mu)
	stack := []Prefix{{}}
	busy := 0
	stop := false
	cexKeys := map[string]bool{}
	deadline := t0.Add(cfg.WallBudget)

	worker := func(id int) {
		e := newEngine(ld, cfg, &hr.Solver)
		defer e.solver.Close()
		if err := e.initProgram(); err != nil {
			mu.Lock()
			hr.Inconclusive = append(hr.Inconclusive, err.Error())
			hr.Outcomes["init-failed"]++
			stop = true
			cond.Broadcast()
			mu.Unlock()
			return
		}
		for {
			mu.Lock()
			for len(stack) == 0 && busy > 0 && !stop {
				cond.Wait()
			}
			if stop || (len(stack) == 0 && busy == 0) {
				cond.Broadcast()
				mu.Unlock()
				break
			}
			p := stack[len(stack)-1]
			stack = stack[:len(stack)-1]
			busy++
			for k := range cexKeys {
				e.cexSeen[k] = true
			}
			mu.Unlock()

			res := e.runPath(h, p, cfg)

			mu.Lock()
			busy--
			hr.Paths++
			hr.Outcomes[res.Outcome]++
			hr.Steps += int64(res.Steps)
			hr.Decisions += res.SymDecs
			hr.Unknowns += res.Unknowns
			hr.Asserts += res.Asserts
			for k := range res.Reached {
				hr.Reached[k]++
			}
			for k, n := range res.Obligations {
				hr.Obligations[k] += n
			}
			switch res.Outcome {
			case "unsupported", "budget", "solver-unknown", "engine-error":
				if len(hr.Inconclusive) < 20 {
					hr.Inconclusive = append(hr.Inconclusive, res.Outcome+": "+firstLines(res.Detail, 12))
				}
			}
			for _, c := range res.Cex {
				key := c.Obligation + "#" + c.Class
				if !cexKeys[key] {
					cexKeys[key] = true
					hr.Cex = append(hr.Cex, c)
				}
			}
			if len(hr.Samples) < 8 && res.Model != nil && (res.Outcome == "done") {
				hr.Samples = append(hr.Samples, PathSample{Outcome: res.Outcome, Vars: filterModel(res.Model, res.Choices), Observed: res.Observed, Trace: res.Decisions})
			}
			if res.Outcome == "done" && !res.Tainted && res.Model != nil && len(hr.PassVectors) < 64 && (hr.Paths%7 == 1 || hr.Paths < 24) {
				hr.PassVectors = append(hr.PassVectors, PathSample{Outcome: res.Outcome, Vars: filterModel(res.Model, res.Choices), Observed: res.Observed, Trace: res.Decisions})
			}
			stack = append(stack, res.NewPrefixes...)
			if len(stack) > hr.MaxQueue {
				hr.MaxQueue = len(stack)
			}
			if cfg.MaxPaths > 0 && hr.Paths >= cfg.MaxPaths && (len(stack) > 0 || busy > 0) {
				hr.Truncated = true
				stop = true
			}
			if time.Now().After(deadline) && (len(stack) > 0 || busy > 0) {
				hr.Truncated = true
				stop = true
			}
			if cfg.StopOnCex && len(hr.Cex) > 0 {
				stop = true
			}
			for k := range e.fnsSeen {
				hr.Funcs[k] = true
			}
			cond.Broadcast()
			mu.Unlock()
		}
	}
	var wg sync.WaitGroup
	n := cfg.Workers
	if n <= 0 {
		n = 16
	}
	for i := 0; i < n; i++ {
		wg.Add(1)
		go func(i int) { defer wg.Done(); worker(i) }(i)
	}
	wg.Wait()
	hr.WallS = time.Since(t0).Seconds()
	sort.Slice(hr.Cex, func(i, j int) bool { return hr.Cex[i].Obligation+hr.Cex[i].Class < hr.Cex[j].Obligation+hr.Cex[j].Class })
	return hr
}

func filterModel(m Model, ch []Choice) map[string]uint64 {
	out := map[string]uint64{}
	for k, v := range m {
		if strings.HasPrefix(k, "#") {
			continue
		}
		out[k] = v
	}
	for _, c := range ch {
		out[c.Name] = uint64(c.Val)
	}
	return out
}

func firstLines(s string, n int) string {
	lines := strings.Split(s, "\n")
	if len(lines) > n {
		lines = lines[:n]
	}
	return strings.Join(lines, "\n")
}

func fatalf(format string, args ...interface{}) {
	fmt.Fprintf(os.Stderr, "gosym: "+format+"\n", args...)
	os.Exit(2)
}
