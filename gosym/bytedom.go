package main

// Exact decision procedure for the single-8-bit-variable fragment.
//
// A path condition conjunct that mentions exactly one 8-bit variable b (and no
// uninterpreted function) denotes a subset of the 256 values of b; it is
// computed by evaluating the term on all 256 values.  As long as b occurs in
// no conjunct together with another variable, the path condition factors into
// (constraints on b) ∧ (rest), so a query "PC ∧ c" with c over b alone is
// satisfiable iff dom(b) ∩ ⟦c⟧ ≠ ∅ (given PC satisfiable).  This is a complete
// finite-domain solver for that fragment; everything else goes to the SMT
// solver.  With -xcheck every verdict is cross-checked against the SMT solver.

type byteSet [4]uint64

func (s *byteSet) has(v uint64) bool { return s[v>>6]&(1<<(v&63)) != 0 }
func (s *byteSet) empty() bool       { return s[0]|s[1]|s[2]|s[3] == 0 }
func (s byteSet) and(o byteSet) byteSet {
	return byteSet{s[0] & o[0], s[1] & o[1], s[2] & o[2], s[3] & o[3]}
}
func (s byteSet) not() byteSet { return byteSet{^s[0], ^s[1], ^s[2], ^s[3]} }
func (s *byteSet) first() uint64 {
	for i := 0; i < 4; i++ {
		if s[i] != 0 {
			for b := 0; b < 64; b++ {
				if s[i]&(1<<uint(b)) != 0 {
					return uint64(i*64 + b)
				}
			}
		}
	}
	return 0
}

var fullByteSet = byteSet{^uint64(0), ^uint64(0), ^uint64(0), ^uint64(0)}

// truthTable returns {x | c[b:=x]} for a Bool term over the single 8-bit var b.
func (e *Engine) truthTable(c *Term) byteSet {
	if tt, ok := e.ttCache[c.id]; ok {
		return tt
	}
	var tt byteSet
	m := Model{}
	ev := &evaluator{m: m, cache: map[int32]uint64{}}
	name := c.sv.name
	for x := uint64(0); x < 256; x++ {
		m[name] = x
		for k := range ev.cache {
			delete(ev.cache, k)
		}
		if ev.eval(c) != 0 {
			tt[x>>6] |= 1 << (x & 63)
		}
	}
	e.ttCache[c.id] = tt
	return tt
}

// unary reports whether c can be handled by the byte-domain procedure.
func (e *Engine) unary(c *Term) bool {
	return !e.noByteDom && !c.multi && c.sv != nil && c.sv.w == 8 && !e.entangled[c.sv.id]
}

func (e *Engine) domOf(v *Term) byteSet {
	if d, ok := e.dom[v.id]; ok {
		return d
	}
	return fullByteSet
}

// noteAssumed updates domains / entanglement for a new PC conjunct.
// Domains are maintained for every 8-bit variable from its unary conjuncts
// (an over-approximation once the variable is entangled with others).
func (e *Engine) noteAssumed(t *Term) {
	if e.noByteDom {
		return
	}
	if !t.multi && t.sv != nil && t.sv.w == 8 {
		e.dom[t.sv.id] = e.domOf(t.sv).and(e.truthTable(t))
		return
	}
	e.entangleAll(t)
	for _, v := range e.varsOf(t) {
		e.multiConj[v] = append(e.multiConj[v], t)
	}
}

// localSearch looks for a value of the single 8-bit variable b of c, inside
// cand, such that every multi-variable conjunct mentioning b still holds with
// the other variables as in the current model.  Success exhibits a model
// (sound); failure says nothing.
func (e *Engine) localSearch(b *Term, cand byteSet) (Model, bool) {
	if !e.modelOK {
		return nil, false
	}
	conj := e.multiConj[b.id]
	m := e.modelWith(b, 0)
	ev := &evaluator{m: m, cache: map[int32]uint64{}}
	bad := false
	ev.ufval = func(app *Term, args []uint64) uint64 { bad = true; return 0 }
	for x := uint64(0); x < 256; x++ {
		if !cand.has(x) {
			continue
		}
		m[b.name] = x
		for k := range ev.cache {
			delete(ev.cache, k)
		}
		ok := true
		for _, c := range conj {
			if ev.eval(c) == 0 || bad {
				ok = false
				break
			}
		}
		if bad {
			return nil, false
		}
		if ok {
			return m, true
		}
	}
	return nil, false
}

func (e *Engine) entangleAll(t *Term) {
	// mark every variable in t as entangled
	seen := map[int32]bool{}
	var walk func(x *Term)
	walk = func(x *Term) {
		if x == nil || seen[x.id] {
			return
		}
		seen[x.id] = true
		if x.op == opVar {
			e.entangled[x.id] = true
			return
		}
		if x.op == opConst {
			return
		}
		if !x.multi && x.sv != nil {
			e.entangled[x.sv.id] = true
			return
		}
		walk(x.a)
		walk(x.b)
		walk(x.d)
		for _, k := range x.kids {
			walk(k)
		}
	}
	walk(t)
}

// modelWith returns a copy of the current model with variable v set to x.
func (e *Engine) modelWith(v *Term, x uint64) Model {
	m := make(Model, len(e.model)+1)
	for k, val := range e.model {
		m[k] = val
	}
	m[v.name] = x
	return m
}
