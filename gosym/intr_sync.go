package main

// sync, sync/atomic: blocking primitives on top of the cooperative scheduler.
// Lock state lives in per-path side tables keyed by the object's address.

import (
	"go/types"
	"golang.org/x/tools/go/ssa"
)

func (e *Engine) mutexOf(p *Value) *mutexState {
	m := e.sched.mutexes[p]
	if m == nil {
		m = &mutexState{}
		e.sched.mutexes[p] = m
	}
	return m
}

func (e *Engine) rwOf(p *Value) *rwState {
	m := e.sched.rw[p]
	if m == nil {
		m = &rwState{}
		e.sched.rw[p] = m
	}
	return m
}

func (e *Engine) acquire(me *G, vc *vclock) {
	if raceEnabled {
		me.vc = me.vc.join(*vc)
	}
}

func (e *Engine) release(me *G, vc *vclock) {
	if raceEnabled {
		me.vc = me.vc.tick(me.id)
		*vc = (*vc).join(me.vc)
	}
}

func (e *Engine) setupSyncIntrinsics() {
	in := e.intr
	in["(*sync.Mutex).Lock"] = func(e *Engine, fr *frame, a []Value) Value {
		e.schedPoint()
		m := e.mutexOf(a[0].(*Value))
		e.block("Mutex.Lock", func() bool { return !m.locked })
		m.locked = true
		m.owner = e.sched.cur.id
		e.acquire(e.sched.cur, &m.vc)
		return nil
	}
	in["(*sync.Mutex).TryLock"] = func(e *Engine, fr *frame, a []Value) Value {
		m := e.mutexOf(a[0].(*Value))
		if m.locked {
			return e.ts.fls
		}
		m.locked = true
		e.acquire(e.sched.cur, &m.vc)
		return e.ts.tru
	}
	in["(*sync.Mutex).Unlock"] = func(e *Engine, fr *frame, a []Value) Value {
		m := e.mutexOf(a[0].(*Value))
		if !m.locked {
			panic(pathEnd{"fatal error: sync: unlock of unlocked mutex"})
		}
		e.release(e.sched.cur, &m.vc)
		m.locked = false
		e.schedPoint()
		return nil
	}
	in["(*sync.RWMutex).Lock"] = func(e *Engine, fr *frame, a []Value) Value {
		e.schedPoint()
		m := e.rwOf(a[0].(*Value))
		m.pendingW++
		e.block("RWMutex.Lock", func() bool { return !m.writer && m.readers == 0 })
		m.pendingW--
		m.writer = true
		e.acquire(e.sched.cur, &m.vc)
		e.acquire(e.sched.cur, &m.rvc)
		return nil
	}
	in["(*sync.RWMutex).Unlock"] = func(e *Engine, fr *frame, a []Value) Value {
		m := e.rwOf(a[0].(*Value))
		if !m.writer {
			panic(pathEnd{"fatal error: sync: Unlock of unlocked RWMutex"})
		}
		e.release(e.sched.cur, &m.vc)
		m.writer = false
		e.schedPoint()
		return nil
	}
	in["(*sync.RWMutex).RLock"] = func(e *Engine, fr *frame, a []Value) Value {
		e.schedPoint()
		m := e.rwOf(a[0].(*Value))
		// writer preference: a pending Lock blocks new readers
		e.block("RWMutex.RLock", func() bool { return !m.writer && m.pendingW == 0 })
		m.readers++
		e.acquire(e.sched.cur, &m.vc)
		return nil
	}
	in["(*sync.RWMutex).RUnlock"] = func(e *Engine, fr *frame, a []Value) Value {
		m := e.rwOf(a[0].(*Value))
		if m.readers <= 0 {
			panic(pathEnd{"fatal error: sync: RUnlock of unlocked RWMutex"})
		}
		e.release(e.sched.cur, &m.rvc)
		m.readers--
		e.schedPoint()
		return nil
	}
	in["(*sync.RWMutex).RLocker"] = func(e *Engine, fr *frame, a []Value) Value {
		e.unsupported("RWMutex.RLocker")
		return nil
	}
	wgOf := func(e *Engine, p *Value) *wgState {
		w := e.sched.wgs[p]
		if w == nil {
			w = &wgState{}
			e.sched.wgs[p] = w
		}
		return w
	}
	in["(*sync.WaitGroup).Add"] = func(e *Engine, fr *frame, a []Value) Value {
		w := wgOf(e, a[0].(*Value))
		d := e.concInt(a[1])
		w.n += d
		if w.n < 0 {
			e.goPanicStr("sync: negative WaitGroup counter")
		}
		e.release(e.sched.cur, &w.vc)
		e.schedPoint()
		return nil
	}
	in["(*sync.WaitGroup).Done"] = func(e *Engine, fr *frame, a []Value) Value {
		w := wgOf(e, a[0].(*Value))
		w.n--
		if w.n < 0 {
			e.goPanicStr("sync: negative WaitGroup counter")
		}
		e.release(e.sched.cur, &w.vc)
		e.schedPoint()
		return nil
	}
	in["(*sync.WaitGroup).Wait"] = func(e *Engine, fr *frame, a []Value) Value {
		e.schedPoint()
		w := wgOf(e, a[0].(*Value))
		e.block("WaitGroup.Wait", func() bool { return w.n == 0 })
		e.acquire(e.sched.cur, &w.vc)
		return nil
	}
	in["(*sync.Once).Do"] = func(e *Engine, fr *frame, a []Value) Value {
		p := a[0].(*Value)
		o := e.sched.onces[p]
		if o == nil {
			o = &onceState{}
			e.sched.onces[p] = o
		}
		if o.done {
			e.acquire(e.sched.cur, &o.vc)
			return nil
		}
		if o.running {
			e.block("Once.Do", func() bool { return o.done })
			e.acquire(e.sched.cur, &o.vc)
			return nil
		}
		o.running = true
		func() {
			defer func() { o.done = true; o.running = false; e.release(e.sched.cur, &o.vc) }()
			e.call(fr, 0, a[1], nil)
		}()
		return nil
	}
	in["(*sync.Once).doSlow"] = func(e *Engine, fr *frame, a []Value) Value {
		e.unsupported("Once.doSlow reached")
		return nil
	}
	// sync.Pool: Get returns New() (a fresh object); Put drops.  A dirty
	// (previously Put) object is also possible in reality; callers in this
	// code base Reset() what they Get, see poolDirty mode.
	in["(*sync.Pool).Get"] = func(e *Engine, fr *frame, a []Value) Value {
		if e.poolDirty {
			e.schedPoint() // in schedule mode another goroutine may Put or Get first
		}
		// (without pool-dirty mode Get always returns a fresh object: the operation
		// is invisible to other goroutines and needs no schedule point)
		p := a[0].(*Value)
		if lst := e.poolItems[p]; len(lst) > 0 && e.poolDirty {
			v := lst[len(lst)-1]
			e.poolItems[p] = lst[:len(lst)-1]
			if vcs := e.poolVCs[p]; len(vcs) == len(lst) && e.sched.cur != nil {
				vc := vcs[len(vcs)-1]
				e.poolVCs[p] = vcs[:len(vcs)-1]
				e.acquire(e.sched.cur, &vc)
			}
			return v
		}
		st := (*p).(Struct)
		// field "New" is the last field
		nf := st[len(st)-1]
		if f, ok := nf.(*ssa.Function); ok && f == nil {
			return Iface{}
		}
		return e.call(fr, 0, nf, nil)
	}
	in["(*sync.Pool).Put"] = func(e *Engine, fr *frame, a []Value) Value {
		if e.poolDirty {
			p := a[0].(*Value)
			e.poolItems[p] = append(e.poolItems[p], a[1])
			vc := vclock{}
			if e.sched.cur != nil {
				e.release(e.sched.cur, &vc)
			}
			e.poolVCs[p] = append(e.poolVCs[p], vc)
		}
		if e.poolDirty {
			e.schedPoint() // the object may now be handed to another goroutine
		}
		return nil
	}

	// ---- sync.Map: an engine map from interface keys to interface values per
	// *sync.Map (the Go 1.24 implementation is a lock-free trie built on
	// internal/abi and atomics, which the engine does not interpret)
	anyT := types.NewInterfaceType(nil, nil)
	syncMapOf := func(e *Engine, p *Value) *Map {
		if e.syncMaps == nil {
			e.syncMaps = map[*Value]*Map{}
		}
		m := e.syncMaps[p]
		if m == nil {
			m = e.makeMap(types.NewMap(anyT, anyT))
			e.syncMaps[p] = m
		}
		return m
	}
	in["(*sync.Map).Load"] = func(e *Engine, fr *frame, a []Value) Value {
		e.schedPoint()
		e.syncMapOp = true
		defer func() { e.syncMapOp = false }()
		v, ok := e.mapLookup(syncMapOf(e, a[0].(*Value)), a[1])
		if !ok {
			return Tuple{Iface{}, e.ts.fls}
		}
		return Tuple{v, e.ts.tru}
	}
	in["(*sync.Map).Store"] = func(e *Engine, fr *frame, a []Value) Value {
		e.schedPoint()
		e.syncMapOp = true
		defer func() { e.syncMapOp = false }()
		e.mapInsert(syncMapOf(e, a[0].(*Value)), a[1], a[2])
		return nil
	}
	in["(*sync.Map).LoadOrStore"] = func(e *Engine, fr *frame, a []Value) Value {
		e.schedPoint()
		e.syncMapOp = true
		defer func() { e.syncMapOp = false }()
		m := syncMapOf(e, a[0].(*Value))
		if v, ok := e.mapLookup(m, a[1]); ok {
			return Tuple{v, e.ts.tru}
		}
		e.mapInsert(m, a[1], a[2])
		return Tuple{a[2], e.ts.fls}
	}
	in["(*sync.Map).Delete"] = func(e *Engine, fr *frame, a []Value) Value {
		e.schedPoint()
		e.syncMapOp = true
		defer func() { e.syncMapOp = false }()
		e.mapDelete(syncMapOf(e, a[0].(*Value)), a[1])
		return nil
	}
	in["(*sync.Map).LoadAndDelete"] = func(e *Engine, fr *frame, a []Value) Value {
		e.schedPoint()
		e.syncMapOp = true
		defer func() { e.syncMapOp = false }()
		m := syncMapOf(e, a[0].(*Value))
		v, ok := e.mapLookup(m, a[1])
		if !ok {
			return Tuple{Iface{}, e.ts.fls}
		}
		e.mapDelete(m, a[1])
		return Tuple{v, e.ts.tru}
	}

	// ---- sync/atomic ----
	for _, ty := range []string{"Int32", "Int64", "Uint32", "Uint64", "Uintptr"} {
		in["sync/atomic.Load"+ty] = func(e *Engine, fr *frame, a []Value) Value {
			e.schedPoint()
			return *(a[0].(*Value))
		}
		in["sync/atomic.Store"+ty] = func(e *Engine, fr *frame, a []Value) Value {
			e.schedPoint()
			e.atomicStore(a[0].(*Value), a[1])
			return nil
		}
		in["sync/atomic.Add"+ty] = func(e *Engine, fr *frame, a []Value) Value {
			e.schedPoint()
			p := a[0].(*Value)
			nv := e.ts.Bin(opAdd, (*p).(*Term), a[1].(*Term))
			e.atomicStore(p, nv)
			return nv
		}
		in["sync/atomic.Swap"+ty] = func(e *Engine, fr *frame, a []Value) Value {
			e.schedPoint()
			p := a[0].(*Value)
			old := *p
			e.atomicStore(p, a[1])
			return old
		}
		in["sync/atomic.CompareAndSwap"+ty] = func(e *Engine, fr *frame, a []Value) Value {
			e.schedPoint()
			p := a[0].(*Value)
			if e.decide(e.ts.Cmp(opEq, (*p).(*Term), a[1].(*Term))) {
				e.atomicStore(p, a[2])
				return e.ts.tru
			}
			return e.ts.fls
		}
		in["sync/atomic.And"+ty] = func(e *Engine, fr *frame, a []Value) Value {
			p := a[0].(*Value)
			old := (*p).(*Term)
			e.atomicStore(p, e.ts.Bin(opAnd, old, a[1].(*Term)))
			return old
		}
		in["sync/atomic.Or"+ty] = func(e *Engine, fr *frame, a []Value) Value {
			p := a[0].(*Value)
			old := (*p).(*Term)
			e.atomicStore(p, e.ts.Bin(opOr, old, a[1].(*Term)))
			return old
		}
	}
	in["sync/atomic.LoadPointer"] = func(e *Engine, fr *frame, a []Value) Value {
		e.schedPoint()
		return *(a[0].(*Value))
	}
	in["sync/atomic.StorePointer"] = func(e *Engine, fr *frame, a []Value) Value {
		e.schedPoint()
		e.atomicStore(a[0].(*Value), a[1])
		return nil
	}
	in["sync/atomic.SwapPointer"] = func(e *Engine, fr *frame, a []Value) Value {
		p := a[0].(*Value)
		old := *p
		e.atomicStore(p, a[1])
		return old
	}
	in["sync/atomic.CompareAndSwapPointer"] = func(e *Engine, fr *frame, a []Value) Value {
		p := a[0].(*Value)
		if e.decide(e.equals(nil, *p, a[1])) {
			e.atomicStore(p, a[2])
			return e.ts.tru
		}
		return e.ts.fls
	}
	// atomic.Value: keep the interface value in the first word cell
	in["(*sync/atomic.Value).Load"] = func(e *Engine, fr *frame, a []Value) Value {
		p := a[0].(*Value)
		st := (*p).(Struct)
		if it, ok := st[0].(Iface); ok {
			return it
		}
		return Iface{}
	}
	in["(*sync/atomic.Value).Store"] = func(e *Engine, fr *frame, a []Value) Value {
		p := a[0].(*Value)
		st := (*p).(Struct)
		if a[1].(Iface).t == nil {
			e.goPanicStr("sync/atomic: store of nil value into Value")
		}
		e.atomicStore(&st[0], a[1])
		return nil
	}
	in["(*sync/atomic.Value).CompareAndSwap"] = func(e *Engine, fr *frame, a []Value) Value {
		e.unsupported("atomic.Value.CompareAndSwap")
		return nil
	}
}

func (e *Engine) atomicStore(p *Value, v Value) {
	if e.journaling {
		e.journal = append(e.journal, undo{p: p, old: *p})
	}
	*p = v
}

