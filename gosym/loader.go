package main

// Loader: builds SSA for /repo's working tree plus the overlaid harness and
// zzverif packages.  Re-run on every invocation, so the encoding always comes
// from the current source.

import (
	"fmt"
	"go/types"
	"os"
	"path/filepath"
	"strings"
	"sync"

	"golang.org/x/tools/go/packages"
	"golang.org/x/tools/go/ssa"
	"golang.org/x/tools/go/ssa/ssautil"
)

type Loader struct {
	prog      *ssa.Program
	pkgs      []*ssa.Package
	byPath    map[string]*ssa.Package
	mu        sync.Mutex
	implCache map[implKey]bool
	initOrder []*ssa.Package
	harness   *ssa.Package
	overlay   map[string][]byte
	loadWall  float64
}

// repoDir is the tree that is loaded, encoded and compiled: /repo, unless
// $GOSYM_REPO names another checkout (used only to evaluate seeded changes in
// scratch worktrees; the registered checks never set it).
var repoDir = func() string {
	if d := os.Getenv("GOSYM_REPO"); d != "" {
		return d
	}
	return "/repo"
}()
const modPath = "github.com/google/badwolf"

// overlayFiles maps every file under verifDir/harness/<pkg>/ to
// /repo/internal/zz<pkg>/<file>.
func overlayFiles(verifDir string) (map[string][]byte, []string, error) {
	ov := map[string][]byte{}
	var pkgs []string
	root := filepath.Join(verifDir, "harness")
	ents, err := os.ReadDir(root)
	if err != nil {
		return nil, nil, err
	}
	for _, d := range ents {
		if !d.IsDir() {
			continue
		}
		if d.Name() == "shim" {
			// harness/shim/<pkg path with __ for />/*.go are added to that package of /repo
			subs, _ := os.ReadDir(filepath.Join(root, "shim"))
			for _, sd := range subs {
				if !sd.IsDir() {
					continue
				}
				files, _ := os.ReadDir(filepath.Join(root, "shim", sd.Name()))
				for _, f := range files {
					if !strings.HasSuffix(f.Name(), ".go") {
						continue
					}
					b, err := os.ReadFile(filepath.Join(root, "shim", sd.Name(), f.Name()))
					if err != nil {
						return nil, nil, err
					}
					ov[filepath.Join(repoDir, strings.ReplaceAll(sd.Name(), "__", "/"), f.Name())] = b
				}
			}
			continue
		}
		files, _ := os.ReadDir(filepath.Join(root, d.Name()))
		n := 0
		for _, f := range files {
			if !strings.HasSuffix(f.Name(), ".go") {
				continue
			}
			b, err := os.ReadFile(filepath.Join(root, d.Name(), f.Name()))
			if err != nil {
				return nil, nil, err
			}
			name := f.Name()
			ov[filepath.Join(repoDir, "internal", "zz"+d.Name(), name)] = b
			n++
		}
		if n > 0 {
			pkgs = append(pkgs, modPath+"/internal/zz"+d.Name())
		}
	}
	return ov, pkgs, nil
}

func load(verifDir string, patterns []string) (*Loader, error) {
	ov, _, err := overlayFiles(verifDir)
	if err != nil {
		return nil, err
	}
	cfg := &packages.Config{
		Mode:       packages.LoadAllSyntax,
		Dir:        repoDir,
		Overlay:    ov,
		Env:        append(os.Environ(), "GOFLAGS=-mod=mod", "GOPROXY=off"),
		BuildFlags: []string{"-tags=verif"},
	}
	initial, err := packages.Load(cfg, patterns...)
	if err != nil {
		return nil, err
	}
	nerr := 0
	packages.Visit(initial, nil, func(p *packages.Package) {
		for _, e := range p.Errors {
			fmt.Fprintf(os.Stderr, "load error: %v\n", e)
			nerr++
		}
	})
	if nerr > 0 {
		return nil, fmt.Errorf("%d package load errors", nerr)
	}
	prog, pkgs := ssautil.AllPackages(initial, ssa.InstantiateGenerics|ssa.SanityCheckFunctions&0)
	prog.Build()
	ld := &Loader{prog: prog, byPath: map[string]*ssa.Package{}, implCache: map[implKey]bool{}, overlay: ov}
	for _, p := range prog.AllPackages() {
		ld.byPath[p.Pkg.Path()] = p
	}
	for _, p := range pkgs {
		if p != nil {
			ld.pkgs = append(ld.pkgs, p)
		}
	}
	// initialisation order: dependency post-order from the initial packages
	seen := map[*types.Package]bool{}
	var visit func(p *types.Package)
	visit = func(p *types.Package) {
		if seen[p] {
			return
		}
		seen[p] = true
		for _, imp := range p.Imports() {
			visit(imp)
		}
		if sp := prog.Package(p); sp != nil {
			ld.initOrder = append(ld.initOrder, sp)
		}
	}
	for _, p := range ld.pkgs {
		visit(p.Pkg)
	}
	return ld, nil
}

func (ld *Loader) lookupFunc(pkg, name string) *ssa.Function {
	p := ld.byPath[pkg]
	if p == nil {
		panic("package not loaded: " + pkg)
	}
	f := p.Func(name)
	if f == nil {
		panic("function not found: " + pkg + "." + name)
	}
	return f
}

func (ld *Loader) lookupType(pkg, name string) types.Type {
	p := ld.byPath[pkg]
	if p == nil {
		panic("package not loaded: " + pkg)
	}
	t := p.Type(name)
	if t == nil {
		panic("type not found: " + pkg + "." + name)
	}
	return t.Type()
}
