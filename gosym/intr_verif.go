package main

// The harness API (package internal/zzverif) as seen by the engine.

import (
	"fmt"
	"go/types"
)

const verifPkg = modPath + "/internal/zzverif"

func (e *Engine) strArg(v Value) string {
	s := v.(Str)
	if s.t != nil {
		panic("zzverif: name arguments must be concrete")
	}
	return s.s
}

func (e *Engine) namedVar(name string, w uint8) *Term {
	return e.newVar(name, w)
}

func (e *Engine) setupVerifIntrinsics() {
	in := e.intr
	p := verifPkg + "."
	in[p+"And"] = func(e *Engine, fr *frame, a []Value) Value { return e.ts.BAnd(a[0].(*Term), a[1].(*Term)) }
	in[p+"Or"] = func(e *Engine, fr *frame, a []Value) Value { return e.ts.BOr(a[0].(*Term), a[1].(*Term)) }
	in[p+"Implies"] = func(e *Engine, fr *frame, a []Value) Value {
		return e.ts.BOr(e.ts.BNot(a[0].(*Term)), a[1].(*Term))
	}
	in[p+"Count"] = func(e *Engine, fr *frame, a []Value) Value {
		sum := e.ts.Const(64, 0)
		for _, b := range a[0].(Slice) {
			sum = e.ts.Bin(opAdd, sum, e.ts.Ite(b.(*Term), e.ts.Const(64, 1), e.ts.Const(64, 0)))
		}
		return sum
	}
	in[p+"LiveGoroutines"] = func(e *Engine, fr *frame, a []Value) Value {
		e.drainGoroutines()
		return e.c64(int64(len(e.leakedGoroutines())))
	}
	in[p+"Symbolic"] = func(e *Engine, fr *frame, a []Value) Value { return e.ts.tru }
	in[p+"Byte"] = func(e *Engine, fr *frame, a []Value) Value { return e.namedVar(e.strArg(a[0]), 8) }
	in[p+"Bool"] = func(e *Engine, fr *frame, a []Value) Value {
		v := e.namedVar(e.strArg(a[0]), 8)
		return e.ts.BNot(e.ts.Cmp(opEq, v, e.ts.Const(8, 0)))
	}
	in[p+"Int"] = func(e *Engine, fr *frame, a []Value) Value { return e.namedVar(e.strArg(a[0]), 64) }
	in[p+"Int64"] = in[p+"Int"]
	in[p+"Uint64"] = in[p+"Int"]
	in[p+"Int32"] = func(e *Engine, fr *frame, a []Value) Value { return e.namedVar(e.strArg(a[0]), 32) }
	in[p+"Uint32"] = in[p+"Int32"]
	bytesOf := func(e *Engine, a []Value) []*Term {
		name := e.strArg(a[0])
		n := int(e.concInt(a[1]))
		k := e.varCount["$"+name]
		e.varCount["$"+name] = k + 1
		base := name
		if k > 0 {
			base = fmt.Sprintf("%s#%d", name, k)
		}
		out := make([]*Term, n)
		for i := range out {
			full := fmt.Sprintf("%s[%d]", base, i)
			e.res.VarOrder = append(e.res.VarOrder, full)
			out[i] = e.ts.Var(full, 8)
		}
		return out
	}
	in[p+"String"] = func(e *Engine, fr *frame, a []Value) Value {
		ts := bytesOf(e, a)
		if len(ts) == 0 {
			return Str{}
		}
		return Str{t: ts}
	}
	in[p+"Bytes"] = func(e *Engine, fr *frame, a []Value) Value {
		ts := bytesOf(e, a)
		out := make(Slice, len(ts))
		for i := range ts {
			out[i] = ts[i]
		}
		return out
	}
	in[p+"Choice"] = func(e *Engine, fr *frame, a []Value) Value {
		name := "?" + e.strArg(a[0])
		k := int(e.concInt(a[1]))
		n := e.varCount[name]
		e.varCount[name] = n + 1
		full := name
		if n > 0 {
			full = fmt.Sprintf("%s#%d", name, n)
		}
		v := e.choose(k)
		e.res.Choices = append(e.res.Choices, Choice{full, v})
		return e.c64(int64(v))
	}
	in[p+"Param"] = func(e *Engine, fr *frame, a []Value) Value {
		name := e.strArg(a[0])
		if v, ok := e.params[name]; ok {
			return e.c64(int64(v))
		}
		return a[1]
	}
	in[p+"Assume"] = func(e *Engine, fr *frame, a []Value) Value {
		e.doAssume(a[0].(*Term))
		return nil
	}
	in[p+"Assert"] = func(e *Engine, fr *frame, a []Value) Value {
		obl := e.strArg(a[1])
		e.res.Asserts++
		e.noteObligation(obl)
		e.doAssert(a[0].(*Term), obl)
		return nil
	}
	in[p+"Fail"] = func(e *Engine, fr *frame, a []Value) Value {
		obl := e.strArg(a[0])
		e.res.Asserts++
		e.noteObligation(obl)
		e.doAssert(e.ts.fls, obl)
		return nil
	}
	in[p+"Reach"] = func(e *Engine, fr *frame, a []Value) Value {
		e.res.Reached[e.strArg(a[0])] = true
		return nil
	}
	in[p+"Class"] = func(e *Engine, fr *frame, a []Value) Value {
		e.classTag = e.strArg(a[0])
		return nil
	}
	in[p+"Observe"] = func(e *Engine, fr *frame, a []Value) Value {
		e.pendingObs = append(e.pendingObs, pendingObs{e.strArg(a[0]), a[1]})
		return nil
	}
}

type Choice struct {
	Name string
	Val  int
}

func (e *Engine) noteObligation(obl string) {
	if e.res.Obligations == nil {
		e.res.Obligations = map[string]int{}
	}
	e.res.Obligations[obl]++
}

// renderObs renders observations under a model, in the format of zzverif.Observe.
func (e *Engine) renderObs(m Model) []Observation {
	ev := &evaluator{m: m, cache: map[int32]uint64{}}
	ev.ufval = func(app *Term, args []uint64) uint64 { return m[fmt.Sprintf("#%d", app.id)] }
	var out []Observation
	for _, po := range e.pendingObs {
		it, _ := po.v.(Iface)
		var s string
		switch x := it.v.(type) {
		case nil:
			s = "nil"
		case Str:
			b := make([]byte, x.Len())
			for i := range b {
				if x.t != nil {
					b[i] = byte(ev.eval(x.t[i]))
				} else {
					b[i] = x.s[i]
				}
			}
			s = fmt.Sprintf("%x", b)
		case Slice:
			b := make([]byte, len(x))
			for i := range b {
				b[i] = byte(ev.eval(x[i].(*Term)))
			}
			s = fmt.Sprintf("%x", b)
		case *Term:
			v := ev.eval(x)
			if x.w == 0 {
				s = fmt.Sprintf("%t", v != 0)
			} else if _, signed, _ := intWidth(it.t); signed {
				s = fmt.Sprintf("%d", sext(v, x.w))
			} else {
				s = fmt.Sprintf("%d", v)
			}
		default:
			s = fmt.Sprintf("?%T", x)
		}
		out = append(out, Observation{po.name, s})
	}
	return out
}

var _ = types.Typ
