package main

// Environment stubs: time.Now, random/hashed UUIDs, reflection-based helpers.

import (
	"strconv"
	"strings"
	"crypto/sha1"
	"fmt"
	"go/token"
	"go/types"

	"golang.org/x/tools/go/ssa"
)

type sha1App struct {
	in  []*Term // input bytes (space ++ data)
	out []*Term // 16 output bytes (after version/variant masking)
	sym bool
}

const unixToInternal int64 = (1969*365 + 1969/4 - 1969/100 + 1969/400) * 86400

func (e *Engine) setupEnvIntrinsics() {
	in := e.intr

	// time.Now: strictly increasing concrete instants starting 2020-01-01T00:00:00Z,
	// one second apart, location Local (initLocal is stubbed to UTC).
	in["time.Now"] = func(e *Engine, fr *frame, a []Value) Value {
		e.nowCounter++
		sec := int64(1577836800) + int64(e.nowCounter) + unixToInternal
		loc := e.globals[e.ld.byPath["time"].Var("localLoc")]
		return Struct{e.ts.Const(64, 0), e.ts.Const(64, uint64(sec)), loc}
	}
	in["time.initLocal"] = func(e *Engine, fr *frame, a []Value) Value { return nil }
	in["time.runtimeNano"] = func(e *Engine, fr *frame, a []Value) Value {
		e.nowCounter++
		return e.c64(int64(e.nowCounter) * 1000)
	}
	in["time.Sleep"] = func(e *Engine, fr *frame, a []Value) Value { e.schedPoint(); return nil }
	in["time.Since"] = func(e *Engine, fr *frame, a []Value) Value { return e.c64(1000) }

	// github.com/pborman/uuid
	in["github.com/pborman/uuid.SetNodeID"] = func(e *Engine, fr *frame, a []Value) Value { return e.ts.tru }
	in["github.com/pborman/uuid.NewRandom"] = func(e *Engine, fr *frame, a []Value) Value {
		e.uuidCounter++
		out := make(Slice, 16)
		for i := range out {
			out[i] = e.ts.Const(8, 0)
		}
		out[0] = e.ts.Const(8, 0xB1)
		out[1] = e.ts.Const(8, 0xA4)
		out[6] = e.ts.Const(8, 0x40)
		out[8] = e.ts.Const(8, 0x80)
		out[14] = e.ts.Const(8, uint64(e.uuidCounter>>8))
		out[15] = e.ts.Const(8, uint64(e.uuidCounter))
		return out
	}
	in["github.com/pborman/uuid.NewSHA1"] = func(e *Engine, fr *frame, a []Value) Value {
		var inp []*Term
		inp = append(inp, sliceBytes(e, a[0])...)
		inp = append(inp, sliceBytes(e, a[1])...)
		return e.sha1UUID(inp)
	}
}

// sha1UUID models UUIDv5 derivation: real SHA-1 for concrete input; for
// symbolic input 16 uninterpreted byte functions per input length, with
// injectivity instantiated against every earlier application on this path
// (SHA-1 truncated as UUIDv5 does is assumed collision-free).
func (e *Engine) sha1UUID(inp []*Term) Slice {
	allConst := true
	for _, b := range inp {
		if !b.IsConst() {
			allConst = false
			break
		}
	}
	app := sha1App{in: inp, sym: !allConst}
	if allConst {
		raw := make([]byte, len(inp))
		for i, b := range inp {
			raw[i] = byte(b.c)
		}
		h := sha1.Sum(raw)
		u := h[:16]
		u[6] = (u[6] & 0x0f) | 0x50
		u[8] = (u[8] & 0x3f) | 0x80
		for _, b := range u {
			app.out = append(app.out, e.ts.Const(8, uint64(b)))
		}
	} else {
		n := len(inp)
		for i := 0; i < 16; i++ {
			o := e.ts.UF(fmt.Sprintf("sha1_%d_%d", n, i), 8, inp...)
			switch i {
			case 6:
				o = e.ts.Bin(opOr, e.ts.Bin(opAnd, o, e.ts.Const(8, 0x0f)), e.ts.Const(8, 0x50))
			case 8:
				o = e.ts.Bin(opOr, e.ts.Bin(opAnd, o, e.ts.Const(8, 0x3f)), e.ts.Const(8, 0x80))
			}
			app.out = append(app.out, o)
		}
	}
	// injectivity against earlier applications (skipping concrete/concrete pairs)
	added := false
	for _, old := range e.sha1Apps {
		if !old.sym && !app.sym {
			continue
		}
		outEq := e.ts.tru
		for i := 15; i >= 0; i-- {
			outEq = e.ts.BAnd(e.ts.Cmp(opEq, app.out[i], old.out[i]), outEq)
		}
		if len(old.in) != len(app.in) {
			e.pendingAxioms = append(e.pendingAxioms, e.ts.BNot(outEq))
			continue
		}
		inEq := e.ts.tru
		for i := len(inp) - 1; i >= 0; i-- {
			inEq = e.ts.BAnd(e.ts.Cmp(opEq, app.in[i], old.in[i]), inEq)
		}
		if inEq.IsTrue() {
			continue
		}
		// outEq ⇒ inEq
		e.pendingAxioms = append(e.pendingAxioms, e.ts.BOr(e.ts.BNot(outEq), inEq))
	}
	if added {
		e.invalidateModel()
	}
	e.sha1Apps = append(e.sha1Apps, app)
	idx := len(e.sha1Apps) - 1
	if app.sym {
		for i, o := range app.out {
			e.sha1OutTerm[o.id] = sha1Ref{idx, i}
		}
	} else {
		var sb strings.Builder
		for _, o := range app.out {
			sb.WriteByte(byte(o.c))
		}
		e.sha1OutConc[sb.String()] = idx
	}
	out := make(Slice, 16)
	for i := range out {
		out[i] = app.out[i]
	}
	return out
}

// ---------- reflection-ish helpers ----------

func (e *Engine) setupReflectIntrinsics() {
	in := e.intr
	in["reflect.DeepEqual"] = func(e *Engine, fr *frame, a []Value) Value {
		return e.deepEqualIface(a[0].(Iface), a[1].(Iface), 0)
	}
	sortSlice := func(stable bool) intrinsic {
		return func(e *Engine, fr *frame, a []Value) Value {
			it := a[0].(Iface)
			sl, ok := it.v.(Slice)
			if !ok {
				e.unsupported("sort.Slice on %T", it.v)
			}
			less := a[1]
			n := len(sl)
			// insertion sort driven by the caller's less: the same comparison
			// sequence as sort's insertionSortLessFunc (what pdqsort uses for n ≤ 12);
			// for larger n this is still a correct stable sort.
			for i := 1; i < n; i++ {
				for j := i; j > 0; j-- {
					r := e.call(fr, token.NoPos, less, []Value{e.c64(int64(j)), e.c64(int64(j - 1))})
					if !e.decide(r.(*Term)) {
						break
					}
					tmp := copyVal(sl[j])
					e.store(&sl[j], sl[j-1])
					e.store(&sl[j-1], tmp)
				}
			}
			return nil
		}
	}
	in["sort.Slice"] = sortSlice(false)
	in["sort.SliceStable"] = sortSlice(true)
}

func (e *Engine) deepEqualIface(a, b Iface, depth int) *Term {
	if a.t == nil || b.t == nil {
		return e.ts.Bool(a.t == nil && b.t == nil)
	}
	if !types.Identical(a.t, b.t) {
		return e.ts.fls
	}
	return e.deepEqual(a.t, a.v, b.v, depth)
}

func (e *Engine) deepEqual(t types.Type, a, b Value, depth int) *Term {
	if depth > 50 {
		e.unsupported("DeepEqual: too deep (cycle?)")
	}
	switch x := a.(type) {
	case *Term, Str, float64, float32, *Chan, UnsafePtr:
		if f, ok := a.(float64); ok {
			return e.ts.Bool(f == b.(float64))
		}
		return e.equals(t, a, b)
	case Iface:
		return e.deepEqualIface(x, b.(Iface), depth+1)
	case *Value:
		y := b.(*Value)
		if x == y {
			return e.ts.tru
		}
		if x == nil || y == nil {
			return e.ts.fls
		}
		return e.deepEqual(deref(t), *x, *y, depth+1)
	case Struct:
		y := b.(Struct)
		st := t.Underlying().(*types.Struct)
		r := e.ts.tru
		for i := range x {
			r = e.ts.BAnd(r, e.deepEqual(st.Field(i).Type(), x[i], y[i], depth+1))
			if r.IsFalse() {
				return r
			}
		}
		return r
	case Array:
		y := b.(Array)
		et := t.Underlying().(*types.Array).Elem()
		r := e.ts.tru
		for i := range x {
			r = e.ts.BAnd(r, e.deepEqual(et, x[i], y[i], depth+1))
			if r.IsFalse() {
				return r
			}
		}
		return r
	case Slice:
		y := b.(Slice)
		if (x == nil) != (y == nil) {
			return e.ts.fls
		}
		if len(x) != len(y) {
			return e.ts.fls
		}
		if len(x) == 0 || &x[0] == &y[0] {
			return e.ts.tru
		}
		et := t.Underlying().(*types.Slice).Elem()
		r := e.ts.tru
		for i := range x {
			r = e.ts.BAnd(r, e.deepEqual(et, x[i], y[i], depth+1))
			if r.IsFalse() {
				return r
			}
		}
		return r
	case *Map:
		y := b.(*Map)
		if (x == nil) != (y == nil) {
			return e.ts.fls
		}
		if x == y {
			return e.ts.tru
		}
		if x.live != y.live {
			return e.ts.fls
		}
		mt := t.Underlying().(*types.Map)
		r := e.ts.tru
		for _, en := range x.entries {
			if en.deleted {
				continue
			}
			v2, ok := e.mapLookup(y, en.key)
			if !ok {
				return e.ts.fls
			}
			r = e.ts.BAnd(r, e.deepEqual(mt.Elem(), en.val, v2, depth+1))
			if r.IsFalse() {
				return r
			}
		}
		return r
	case *ssa.Function:
		y, ok := b.(*ssa.Function)
		return e.ts.Bool(ok && x == nil && y == nil)
	case *Closure:
		return e.ts.fls
	}
	e.unsupported("DeepEqual on %T", a)
	return nil
}

func init() {
	extraIntrinsics = append(extraIntrinsics, func(e *Engine) {
		in := e.intr
		in["internal/stringslite.Clone"] = func(e *Engine, fr *frame, a []Value) Value { return a[0] }
		in["strings.Clone"] = in["internal/stringslite.Clone"]
		// strconv.ParseFloat: native on concrete text; on symbolic text a
		// nondeterministic stub (either an error, or an arbitrary float64 carried
		// as an opaque 64-bit pattern).
		in["strconv.ParseFloat"] = func(e *Engine, fr *frame, a []Value) Value {
			s := a[0].(Str)
			bits := int(e.concInt(a[1]))
			if s.t == nil {
				f, err := strconv.ParseFloat(s.s, bits)
				if err != nil {
					return Tuple{f, e.newError(err.Error())}
				}
				return Tuple{f, Iface{}}
			}
			if e.choose(2) == 0 {
				return Tuple{float64(0), e.newError("strconv.ParseFloat: parsing <symbolic>: invalid syntax")}
			}
			e.witnessCount++
			return Tuple{FloatSym{e.newVar(fmt.Sprintf("~float%d", e.witnessCount), 64)}, Iface{}}
		}
	})
}

type sha1Ref struct{ app, i int }

// sha1AppOf identifies a 16-byte window as the complete output of one hash
// application on this path (symbolic: by term identity; concrete: by value).
func (e *Engine) sha1AppOf(s Str, off int) (int, bool) {
	if s.t == nil {
		idx, ok := e.sha1OutConc[s.s[off:off+16]]
		return idx, ok
	}
	allConst := true
	for i := 0; i < 16; i++ {
		if !s.t[off+i].IsConst() {
			allConst = false
			break
		}
	}
	if allConst {
		var sb strings.Builder
		for i := 0; i < 16; i++ {
			sb.WriteByte(byte(s.t[off+i].c))
		}
		idx, ok := e.sha1OutConc[sb.String()]
		return idx, ok
	}
	r, ok := e.sha1OutTerm[s.t[off].id]
	if !ok || r.i != 0 {
		return 0, false
	}
	for i := 1; i < 16; i++ {
		r2, ok := e.sha1OutTerm[s.t[off+i].id]
		if !ok || r2.app != r.app || r2.i != i {
			return 0, false
		}
	}
	return r.app, true
}

// sha1Eq rewrites an equality between strings made of whole hash outputs into
// the equality of the hashed inputs (injectivity of the hash is the standing
// assumption; this only spares the solver the detour through the axioms).
func (e *Engine) sha1Eq(a, b Str) (*Term, bool) {
	n := a.Len()
	if n == 0 || n%16 != 0 || n != b.Len() || len(e.sha1Apps) == 0 {
		return nil, false
	}
	if a.t == nil && b.t == nil {
		return nil, false
	}
	res := e.ts.tru
	any := false
	for off := 0; off < n; off += 16 {
		ia, ok1 := e.sha1AppOf(a, off)
		ib, ok2 := e.sha1AppOf(b, off)
		if !ok1 || !ok2 {
			// not (both) hash outputs: compare this window byte by byte
			for i := off + 15; i >= off; i-- {
				res = e.ts.BAnd(e.ts.Cmp(opEq, e.byteAt(a, i), e.byteAt(b, i)), res)
			}
			if res.IsFalse() {
				return res, true
			}
			continue
		}
		any = true
		if ia == ib {
			continue
		}
		x, y := e.sha1Apps[ia], e.sha1Apps[ib]
		if len(x.in) != len(y.in) {
			return e.ts.fls, true
		}
		res = e.ts.BAnd(res, e.strEq(Str{t: nonNil(x.in)}, Str{t: nonNil(y.in)}))
		if res.IsFalse() {
			return res, true
		}
	}
	if !any {
		return nil, false
	}
	return res, true
}
