package main

import "time"

// The registered harness runs per property.  Parameters are the stated bounds.
var checks = map[string][]HarnessSpec{
	"C06": {
		{Name: "HarnessC06Node", Pkg: "leaf", Quick: map[string]int{"L": 2}, Thorough: map[string]int{"L": 3}},
		{Name: "HarnessC06LiteralDefined", Pkg: "leaf", Quick: map[string]int{"L": 3}, Thorough: map[string]int{"L": 6}, PoolDirty: true},
		{Name: "HarnessC06LiteralPair", Pkg: "leaf", Quick: map[string]int{"L": 2}, Thorough: map[string]int{"L": 3}},
		{Name: "HarnessC06LiteralBoolText", Pkg: "leaf"},
		{Name: "HarnessC06Predicate", Pkg: "leaf", Quick: map[string]int{"L": 2}, Thorough: map[string]int{"L": 3}},
		{Name: "HarnessC06Triple", Pkg: "leaf"},
	},
	"C15": {
		{Name: "HarnessC15Node", Pkg: "leaf", Quick: map[string]int{"N": 4}, Thorough: map[string]int{"N": 6}},
		{Name: "HarnessC15Predicate", Pkg: "leaf", Quick: map[string]int{"N": 4}, Thorough: map[string]int{"N": 6}},
		{Name: "HarnessC15PredicateTemplate", Pkg: "leaf", Quick: map[string]int{"ID": 3, "A": 1}, Thorough: map[string]int{"ID": 5, "A": 2}},
		{Name: "HarnessC15Literal", Pkg: "leaf", Quick: map[string]int{"N": 4}, Thorough: map[string]int{"N": 6}},
		{Name: "HarnessC15LiteralTyped", Pkg: "leaf", Quick: map[string]int{"N": 2}, Thorough: map[string]int{"N": 4}},
		{Name: "HarnessC15Object", Pkg: "leaf", Quick: map[string]int{"N": 4}, Thorough: map[string]int{"N": 5}},
	},
}

var commonAssumptions = []string{
	"bounds: string/slice lengths, numbers of operations and skeleton choices are those listed per harness in coverage.harnesses[].params; nothing is claimed outside them",
	"intrinsics re-implemented in the engine (internal/bytealg, fmt verbs %s %q %v %d %t %T %f, sync, sync/atomic, sort.Slice, reflect.DeepEqual, unsafe.String/SliceData, math.Float64bits) are trusted and spot-checked by the native differential validation (traces_validated_against_impl)",
	"fmt.Errorf messages are built lazily (only when Error() is called)",
	"z3 4.8.12 / cvc5 1.0 verdicts are trusted; any (error or unknown answer makes the run inconclusive",
}

func assumptionsFor(prop string) []string {
	out := append([]string(nil), commonAssumptions...)
	out = append(out, propAssumptions[prop]...)
	return out
}

var propAssumptions = map[string][]string{
	"C06": {"SHA-1 truncated to a version-5 UUID is modelled as real SHA-1 on concrete input and as 16 uninterpreted byte functions per input length on symbolic input, with injectivity instantiated for every pair of applications on a path: no claim about SHA-1 collisions", "node text restricted to the documented domain (no whitespace, no <> in ids, type starts with / and does not end with /)", "temporal anchors: seconds from a concrete pool {0,1,1.6e9}, nanoseconds fully symbolic, three zones; float64 values from a concrete pool of 9 (compared by bit pattern)", "sync.Pool.Get may return a previously Put (dirty) buffer in HarnessC06LiteralDefined"},
	"C15": {"time.Parse/Format are interpreted from the Go standard library source on the anchor text; re-print obligations are asserted for immutable predicates only", "float64 literals: accepted inputs are not re-printed (float formatting of symbolic values is outside the encoding)"},
}

var _ = time.Second
