package main

import "time"

// The registered harness runs per property.  Parameters are the stated bounds.
var checks = map[string][]HarnessSpec{
	"C07": {
		{Name: "HarnessC07Concurrent", Pkg: "store", Quick: map[string]int{"SCENARIO": 0}, Thorough: map[string]int{"SCENARIO": 0}, Schedule: true, Race: true, Preempt: 3},
		{Name: "HarnessC07Concurrent", Pkg: "store", Quick: map[string]int{"SCENARIO": 1}, Thorough: map[string]int{"SCENARIO": 1}, Schedule: true, Race: true, Preempt: 3},
		{Name: "HarnessC07Concurrent", Pkg: "store", Quick: map[string]int{"SCENARIO": 2}, Thorough: map[string]int{"SCENARIO": 2}, Schedule: true, Race: true, Preempt: 3},
		{Name: "HarnessC07Concurrent", Pkg: "store", Quick: map[string]int{"SCENARIO": 3}, Thorough: map[string]int{"SCENARIO": 3}, Schedule: true, Race: true, Preempt: 3},
		{Name: "HarnessC07Concurrent", Pkg: "store", Quick: map[string]int{"SCENARIO": 4}, Thorough: map[string]int{"SCENARIO": 4}, Schedule: true, Race: true, Preempt: 3},
		{Name: "HarnessC07Concurrent", Pkg: "store", Quick: map[string]int{"SCENARIO": 5}, Thorough: map[string]int{"SCENARIO": 5}, Schedule: true, Race: true, Preempt: 3},
	},
	"C14": {
		{Name: "HarnessPipeline", Pkg: "bql", Quick: map[string]int{"PROP": 14, "K": 2}, Thorough: map[string]int{"PROP": 14, "K": 3}, MapOrder: true, MapOrderFilter: "bql/semantic", Note: "repeated ORDER BY keys; every map range inside bql/semantic explored in rotated and reversed order"},
		{Name: "HarnessC14Procs", Pkg: "bql", Quick: map[string]int{"GOMAXPROCS": 1, "ROWS": 5}, Thorough: map[string]int{"GOMAXPROCS": 1, "ROWS": 6}, Schedule: true, Race: true, Preempt: 1, Note: "fan-out join over concrete data, one processor, every schedule with one preemption"},
		{Name: "HarnessC14Procs", Pkg: "bql", Quick: map[string]int{"GOMAXPROCS": 2, "ROWS": 5}, Thorough: map[string]int{"GOMAXPROCS": 2, "ROWS": 6}, Schedule: true, Race: true, Preempt: 1, Note: "two processors"},
		{Name: "HarnessC14Procs", Pkg: "bql", Thorough: map[string]int{"GOMAXPROCS": 4, "ROWS": 6}, Schedule: true, Race: true, Preempt: 1, OnlyThorough: true, Note: "four processors"},
		{Name: "HarnessC14Relations", Pkg: "bql", Quick: map[string]int{"K": 1, "TEMPORAL": 0}, Thorough: map[string]int{"K": 2, "TEMPORAL": 0}, ThoroughWall: 90 * time.Minute},
	},
	"C20": {
		{Name: "HarnessC20Faults", Pkg: "bql", Quick: map[string]int{"FAULTS": 1, "BULK": 1}, Thorough: map[string]int{"FAULTS": 2, "BULK": 1}},
		{Name: "HarnessC20Faults", Pkg: "bql", Quick: map[string]int{"FAULTS": 1, "BULK": 2}, Thorough: map[string]int{"FAULTS": 2, "BULK": 2}},
	},
	"C08": {
		{Name: "HarnessC08Hole", Pkg: "bql", Quick: map[string]int{"N": 2, "ASCII": 1}, Thorough: map[string]int{"N": 3, "ASCII": 1}},
		{Name: "HarnessC08Tokens", Pkg: "bql", Quick: map[string]int{"L": 6}, Thorough: map[string]int{"L": 9}},
		{Name: "HarnessC08Corpus", Pkg: "bql"},
		{Name: "HarnessC08Tail", Pkg: "bql", Quick: map[string]int{"L": 4}, Thorough: map[string]int{"L": 6}, Note: "eleven statement prefixes followed by every viable token tail"},
	},
	"C04": {
		{Name: "HarnessC04Statement", Pkg: "bql", Quick: map[string]int{"K": 1}, Thorough: map[string]int{"K": 1}},
		{Name: "HarnessC04Statement", Pkg: "bql", Quick: map[string]int{"K": 2, "KH": 0, "CASE": 11}, Thorough: map[string]int{"K": 3, "KH": 1, "CASE": 11}, Note: "reification with rows that differ only after the ';'"},
		{Name: "HarnessC04Statement", Pkg: "bql", Quick: map[string]int{"K": 2, "KH": 0, "CASE": 10}, Thorough: map[string]int{"K": 3, "KH": 1, "CASE": 10}, Note: "reification, two and three rows"},
		{Name: "HarnessC04Statement", Pkg: "bql", Thorough: map[string]int{"K": 2, "CASE": 0}, OnlyThorough: true},
		{Name: "HarnessC04Statement", Pkg: "bql", Thorough: map[string]int{"K": 2, "CASE": 1}, OnlyThorough: true},
		{Name: "HarnessC04Statement", Pkg: "bql", Thorough: map[string]int{"K": 2, "CASE": 2}, OnlyThorough: true},
		{Name: "HarnessC04Statement", Pkg: "bql", Thorough: map[string]int{"K": 2, "CASE": 3}, OnlyThorough: true},
		{Name: "HarnessC04Statement", Pkg: "bql", Thorough: map[string]int{"K": 2, "CASE": 4}, OnlyThorough: true},
		{Name: "HarnessC04Statement", Pkg: "bql", Thorough: map[string]int{"K": 2, "CASE": 5}, OnlyThorough: true},
		{Name: "HarnessC04Statement", Pkg: "bql", Thorough: map[string]int{"K": 2, "CASE": 6}, OnlyThorough: true},
		{Name: "HarnessC04Statement", Pkg: "bql", Thorough: map[string]int{"K": 2, "CASE": 7}, OnlyThorough: true},
		{Name: "HarnessC04Statement", Pkg: "bql", Thorough: map[string]int{"K": 2, "CASE": 8}, OnlyThorough: true},
		{Name: "HarnessC04Statement", Pkg: "bql", Thorough: map[string]int{"K": 2, "CASE": 9}, OnlyThorough: true},
	},
	"C03": {
		{Name: "HarnessC03Select", Pkg: "bql", Quick: map[string]int{"K": 2, "TEMPORAL": 1}, Thorough: map[string]int{"K": 3, "TEMPORAL": 1}, ThoroughWall: 90 * time.Minute},
		{Name: "HarnessC03Extract", Pkg: "bql", Quick: map[string]int{"K": 2}, Thorough: map[string]int{"K": 3}, ThoroughWall: 90 * time.Minute, Note: "extraction keywords, predicate windows, global time bounds, several FROM graphs"},
	},
	"C10": {
		{Name: "HarnessC10Join", Pkg: "bql", Quick: map[string]int{"ROWS": 2, "SHARED": 1, "KINDS": 0}, Thorough: map[string]int{"ROWS": 3, "SHARED": 1, "KINDS": 0}},
		{Name: "HarnessC10Join", Pkg: "bql", Quick: map[string]int{"ROWS": 2, "SHARED": 2, "KINDS": 0}, Thorough: map[string]int{"ROWS": 3, "SHARED": 2, "KINDS": 0}},
		{Name: "HarnessC10Join", Pkg: "bql", Quick: map[string]int{"ROWS": 2, "SHARED": 0}, Thorough: map[string]int{"ROWS": 3, "SHARED": 0}},
		{Name: "HarnessC10Join", Pkg: "bql", Quick: map[string]int{"ROWS": 2, "SHARED": 1, "KINDS": 1}, Thorough: map[string]int{"ROWS": 3, "SHARED": 1, "KINDS": 2}, Note: "cells of several kinds in the join column"},
		{Name: "HarnessC10Optional", Pkg: "bql", Quick: map[string]int{"K": 2}, Thorough: map[string]int{"K": 3}, Note: "end to end through lexer, parser, planner and memory driver"},
	},
	"C11": {
		{Name: "HarnessC11Reduce", Pkg: "bql", Quick: map[string]int{"ROWS": 3, "KINDS": 0}, Thorough: map[string]int{"ROWS": 4, "KINDS": 0}},
		{Name: "HarnessPipeline", Pkg: "bql", Quick: map[string]int{"PROP": 11, "K": 2}, Thorough: map[string]int{"PROP": 11, "K": 3}, Note: "GROUP BY end to end through lexer, parser, planner and memory driver"},
		{Name: "HarnessPipeline", Pkg: "bql", Quick: map[string]int{"PROP": 110, "K": 3}, Thorough: map[string]int{"PROP": 110, "K": 4}, Note: "GROUP BY a time anchor, three anchors one nanosecond apart"},
		{Name: "HarnessC11Reduce", Pkg: "bql", Quick: map[string]int{"ROWS": 3, "KINDS": 2}, Thorough: map[string]int{"ROWS": 4, "KINDS": 2}, Note: "string, text-literal and node cells mixed in the grouping column"},
	},
	"C12": {
		{Name: "HarnessC12IntOrder", Pkg: "bql", Solver: "cvc5-int", TimeoutMS: 60000},
		{Name: "HarnessC12TimeOrder", Pkg: "bql"},
		{Name: "HarnessC12Permutation", Pkg: "bql", Quick: map[string]int{"ROWS": 2}, Thorough: map[string]int{"ROWS": 3}},
		{Name: "HarnessC12Limit", Pkg: "bql", Quick: map[string]int{"ROWS": 3}, Thorough: map[string]int{"ROWS": 5}},
		{Name: "HarnessC12LimitClause", Pkg: "bql", Quick: map[string]int{"D": 2}, Thorough: map[string]int{"D": 4}},
		{Name: "HarnessPipeline", Pkg: "bql", Quick: map[string]int{"PROP": 12, "K": 2}, Thorough: map[string]int{"PROP": 12, "K": 3}, Note: "ORDER BY / LIMIT end to end through lexer, parser, planner and memory driver"},
		{Name: "HarnessPipeline", Pkg: "bql", Quick: map[string]int{"PROP": 120, "K": 3}, Thorough: map[string]int{"PROP": 120, "K": 4}, Note: "ORDER BY followed by HAVING and LIMIT, three and four rows"},
	},
	"C13": {
		{Name: "HarnessC13IntLeaf", Pkg: "bql", Solver: "cvc5-int", TimeoutMS: 60000},
		{Name: "HarnessC13TextLeaf", Pkg: "bql", Quick: map[string]int{"L": 2}, Thorough: map[string]int{"L": 3}},
		{Name: "HarnessC13KindMismatch", Pkg: "bql"},
		{Name: "HarnessC13TimeLeaf", Pkg: "bql"},
		{Name: "HarnessC13Boolean", Pkg: "bql"},
		{Name: "HarnessPipeline", Pkg: "bql", Quick: map[string]int{"PROP": 13, "K": 2}, Thorough: map[string]int{"PROP": 13, "K": 3}, Note: "HAVING end to end through lexer, parser, planner and memory driver"},
	},
	"C17": {
		{Name: "HarnessC17Tables", Pkg: "bql"},
		{Name: "HarnessC17Witness", Pkg: "bql"},
	},
	"C18": {
		{Name: "HarnessC18Rule", Pkg: "bql", Quick: map[string]int{"ALLRULES": 1, "L": 4}, Thorough: map[string]int{"ALLRULES": 1, "L": 6}, Note: "every rule re-rooted as START"},
		{Name: "HarnessC18Rule", Pkg: "bql", Quick: map[string]int{"ALLRULES": 0, "L": 8}, Thorough: map[string]int{"ALLRULES": 0, "L": 11}, Note: "the real START"},
		{Name: "HarnessC18Semantic", Pkg: "bql", Quick: map[string]int{"L": 5}, Thorough: map[string]int{"L": 8}},
		{Name: "HarnessC18NoState", Pkg: "bql", Quick: map[string]int{"L": 2}, Thorough: map[string]int{"L": 4}},
		{Name: "HarnessC18NoStatePairs", Pkg: "bql"},
		{Name: "HarnessC18NoStateWitness", Pkg: "bql", Note: "statement 1 = a witness sentence for every alternative of every rule"},
	},
	"C19": {
		{Name: "HarnessC19OptionPairs", Pkg: "store", Note: "all twelve read methods, two reads with independently chosen options, optional write in between"},
		{Name: "HarnessC19Abandon", Pkg: "store", Note: "a read abandoned by its caller (context cancelled mid-stream), then the same read again"},
		{Name: "HarnessC19LockStep", Pkg: "store", Quick: map[string]int{"H": 2, "WARM": 1, "HANDLES": 2}, Thorough: map[string]int{"H": 3, "WARM": 1, "HANDLES": 2}, ThoroughWall: 90 * time.Minute},
	},
	"C01": {
		{Name: "HarnessC01Names", Pkg: "store", Quick: map[string]int{"H": 3}, Thorough: map[string]int{"H": 4}},
		{Name: "HarnessC01Triples", Pkg: "store", Quick: map[string]int{"PRE": 1, "B": 1, "RB": 2, "TEMPORAL": 0}, Thorough: map[string]int{"PRE": 2, "B": 1, "RB": 2, "TEMPORAL": 0}},
		{Name: "HarnessC01Triples", Pkg: "store", Quick: map[string]int{"PRE": 1, "B": 1, "TEMPORAL": 1}, Thorough: map[string]int{"PRE": 1, "B": 1, "TEMPORAL": 1}, OnlyThorough: true, Note: "immutable and temporal predicates sharing identifiers; same instant in two zones"},
		{Name: "HarnessC01Recreate", Pkg: "store"},
		{Name: "HarnessC01KindBatch", Pkg: "store", Quick: map[string]int{"ANCHORS": 3}, Thorough: map[string]int{"ANCHORS": 4}, Note: "triples differing only in predicate kind / instant, added and removed in one batch"},
	},
	"C02": {
		{Name: "HarnessC02Lookup", Pkg: "store", Quick: map[string]int{"METHOD": 0, "PRE": 1, "REM": 1, "TEMPORAL": 1, "ANCHORS": 3}, Thorough: map[string]int{"METHOD": 0, "PRE": 2, "REM": 1, "TEMPORAL": 1, "ANCHORS": 3}, Note: "Objects"},
		{Name: "HarnessC02Lookup", Pkg: "store", Quick: map[string]int{"METHOD": 1, "PRE": 1, "REM": 1, "TEMPORAL": 1, "ANCHORS": 3}, Thorough: map[string]int{"METHOD": 1, "PRE": 2, "REM": 1, "TEMPORAL": 1, "ANCHORS": 3}, Note: "Subjects"},
		{Name: "HarnessC02Lookup", Pkg: "store", Quick: map[string]int{"METHOD": 2, "PRE": 1, "REM": 1, "TEMPORAL": 1}, Thorough: map[string]int{"METHOD": 2, "PRE": 2, "REM": 1, "TEMPORAL": 1}, Note: "PredicatesForSubject"},
		{Name: "HarnessC02Lookup", Pkg: "store", Quick: map[string]int{"METHOD": 3, "PRE": 1, "REM": 1, "TEMPORAL": 1}, Thorough: map[string]int{"METHOD": 3, "PRE": 2, "REM": 1, "TEMPORAL": 1}, Note: "PredicatesForObject"},
		{Name: "HarnessC02Lookup", Pkg: "store", Quick: map[string]int{"METHOD": 4, "PRE": 1, "REM": 1, "TEMPORAL": 1}, Thorough: map[string]int{"METHOD": 4, "PRE": 2, "REM": 1, "TEMPORAL": 1}, Note: "PredicatesForSubjectAndObject"},
		{Name: "HarnessC02Lookup", Pkg: "store", Quick: map[string]int{"METHOD": 5, "PRE": 1, "REM": 1, "TEMPORAL": 1}, Thorough: map[string]int{"METHOD": 5, "PRE": 2, "REM": 1, "TEMPORAL": 1}, Note: "TriplesForSubject"},
		{Name: "HarnessC02Lookup", Pkg: "store", Quick: map[string]int{"METHOD": 6, "PRE": 1, "REM": 1, "TEMPORAL": 1, "ANCHORS": 3}, Thorough: map[string]int{"METHOD": 6, "PRE": 2, "REM": 1, "TEMPORAL": 1, "ANCHORS": 3}, Note: "TriplesForPredicate"},
		{Name: "HarnessC02Lookup", Pkg: "store", Quick: map[string]int{"METHOD": 7, "PRE": 1, "REM": 1, "TEMPORAL": 1}, Thorough: map[string]int{"METHOD": 7, "PRE": 2, "REM": 1, "TEMPORAL": 1}, Note: "TriplesForObject"},
		{Name: "HarnessC02Lookup", Pkg: "store", Quick: map[string]int{"METHOD": 8, "PRE": 1, "REM": 1, "TEMPORAL": 1, "ANCHORS": 3}, Thorough: map[string]int{"METHOD": 8, "PRE": 2, "REM": 1, "TEMPORAL": 1, "ANCHORS": 3}, Note: "TriplesForSubjectAndPredicate"},
		{Name: "HarnessC02Lookup", Pkg: "store", Quick: map[string]int{"METHOD": 9, "PRE": 1, "REM": 1, "TEMPORAL": 1, "ANCHORS": 3}, Thorough: map[string]int{"METHOD": 9, "PRE": 2, "REM": 1, "TEMPORAL": 1, "ANCHORS": 3}, Note: "TriplesForPredicateAndObject"},
	},
	"C09": {
		{Name: "HarnessC09Options", Pkg: "store", Quick: map[string]int{"METHOD": 0, "PRE": 1, "ANCHORS": 2}, Thorough: map[string]int{"METHOD": 0, "PRE": 2, "ANCHORS": 3, "OBJPRED": 1}, OnlyThorough: false},
		{Name: "HarnessC09Options", Pkg: "store", Quick: map[string]int{"METHOD": 1, "PRE": 1, "ANCHORS": 2}, Thorough: map[string]int{"METHOD": 1, "PRE": 2, "ANCHORS": 3, "OBJPRED": 1}, OnlyThorough: true},
		{Name: "HarnessC09Options", Pkg: "store", Quick: map[string]int{"METHOD": 2, "PRE": 1, "ANCHORS": 2}, Thorough: map[string]int{"METHOD": 2, "PRE": 2, "ANCHORS": 3, "OBJPRED": 1}, OnlyThorough: true},
		{Name: "HarnessC09Options", Pkg: "store", Quick: map[string]int{"METHOD": 3, "PRE": 1, "ANCHORS": 2}, Thorough: map[string]int{"METHOD": 3, "PRE": 2, "ANCHORS": 3, "OBJPRED": 1}, OnlyThorough: true},
		{Name: "HarnessC09Options", Pkg: "store", Quick: map[string]int{"METHOD": 4, "PRE": 1, "ANCHORS": 2}, Thorough: map[string]int{"METHOD": 4, "PRE": 2, "ANCHORS": 3, "OBJPRED": 1}, OnlyThorough: true},
		{Name: "HarnessC09Options", Pkg: "store", Quick: map[string]int{"METHOD": 5, "PRE": 1, "ANCHORS": 2}, Thorough: map[string]int{"METHOD": 5, "PRE": 2, "ANCHORS": 3, "OBJPRED": 1}, OnlyThorough: true},
		{Name: "HarnessC09Options", Pkg: "store", Quick: map[string]int{"METHOD": 6, "PRE": 1, "ANCHORS": 2}, Thorough: map[string]int{"METHOD": 6, "PRE": 2, "ANCHORS": 3, "OBJPRED": 1}, OnlyThorough: false},
		{Name: "HarnessC09Options", Pkg: "store", Quick: map[string]int{"METHOD": 7, "PRE": 1, "ANCHORS": 2}, Thorough: map[string]int{"METHOD": 7, "PRE": 2, "ANCHORS": 3, "OBJPRED": 1}, OnlyThorough: true},
		{Name: "HarnessC09Options", Pkg: "store", Quick: map[string]int{"METHOD": 8, "PRE": 1, "ANCHORS": 2}, Thorough: map[string]int{"METHOD": 8, "PRE": 2, "ANCHORS": 3, "OBJPRED": 1}, OnlyThorough: false},
		{Name: "HarnessC09Options", Pkg: "store", Quick: map[string]int{"METHOD": 9, "PRE": 1, "ANCHORS": 2}, Thorough: map[string]int{"METHOD": 9, "PRE": 2, "ANCHORS": 3, "OBJPRED": 1}, OnlyThorough: true},
		{Name: "HarnessC09Latest", Pkg: "store", Quick: map[string]int{"ANCHORS": 2, "EXTRA": 0}, Thorough: map[string]int{"ANCHORS": 4, "EXTRA": 1}, Note: "two or three competing temporal triples"},
		{Name: "HarnessC09PageOverflow", Pkg: "store"},
		{Name: "HarnessC09Paging", Pkg: "store", Quick: map[string]int{"M": 7, "N": 4, "KMAX": 4}, Thorough: map[string]int{"M": 9, "N": 5, "KMAX": 5}, Note: "seven results per lookup method, page size and offset symbolic"},
	},
	"C05": {
		{Name: "HarnessC05Node", Pkg: "leaf", Quick: map[string]int{"L": 2}, Thorough: map[string]int{"L": 3}},
		{Name: "HarnessC05Predicate", Pkg: "leaf", Quick: map[string]int{"L": 2}, Thorough: map[string]int{"L": 3}, Note: "ids over all non-whitespace byte values"},
		{Name: "HarnessC05Predicate", Pkg: "leaf", Quick: map[string]int{"L": 3, "ASCII": 1}, Thorough: map[string]int{"L": 4, "ASCII": 1}},
		{Name: "HarnessC05Literal", Pkg: "leaf", Quick: map[string]int{"T": 2, "B": 2}, Thorough: map[string]int{"T": 3, "B": 3}},
		{Name: "HarnessC05LongText", Pkg: "leaf", Quick: map[string]int{"T": 7}, Thorough: map[string]int{"T": 7}},
		{Name: "HarnessC05Int64", Pkg: "leaf", Solver: "cvc5-int", TimeoutMS: 60000},
		{Name: "HarnessC05Triple", Pkg: "leaf", Quick: map[string]int{"SI": 1, "PI": 1, "OT": 1}, Thorough: map[string]int{"SI": 2, "PI": 2, "OT": 2}},
		{Name: "HarnessC05Graph", Pkg: "store", Quick: map[string]int{"K": 2}, Thorough: map[string]int{"K": 3}},
		{Name: "HarnessC05Graph", Pkg: "store", Quick: map[string]int{"K": 1, "WIDE": 1}, Thorough: map[string]int{"K": 2, "WIDE": 1}, Note: "component bytes over the printable 7-bit range"},
	},
	"C16": {
		{Name: "HarnessC16Structure", Pkg: "leaf", Quick: map[string]int{"N": 3, "ASCII": 1}, Thorough: map[string]int{"N": 4, "ASCII": 1}},
		{Name: "HarnessC16Structure", Pkg: "leaf", Quick: map[string]int{"N": 2, "ASCII": 0}, Thorough: map[string]int{"N": 3, "ASCII": 0}, Note: "all 256 byte values"},
		{Name: "HarnessC16Template", Pkg: "leaf", Quick: map[string]int{"N": 2, "ASCII": 1}, Thorough: map[string]int{"N": 3, "ASCII": 1}, Note: "23 templates with a hole of up to N symbolic bytes"},
		{Name: "HarnessC16KeywordCase", Pkg: "leaf"},
		{Name: "HarnessC16LiteralTypeCase", Pkg: "leaf"},
		{Name: "HarnessC16Whitespace", Pkg: "leaf", Quick: map[string]int{"W": 2, "ASCII": 1}, Thorough: map[string]int{"W": 3, "ASCII": 1}},
		{Name: "HarnessC16PrintedForms", Pkg: "leaf", Quick: map[string]int{"P": 2, "ASCII": 1}, Thorough: map[string]int{"P": 3, "ASCII": 1}},
	},
	"C06": {
		{Name: "HarnessC06Node", Pkg: "leaf", Quick: map[string]int{"L": 2}, Thorough: map[string]int{"L": 3}},
		{Name: "HarnessC06LiteralDefined", Pkg: "leaf", Quick: map[string]int{"L": 3}, Thorough: map[string]int{"L": 6}, PoolDirty: true},
		{Name: "HarnessC06LiteralPair", Pkg: "leaf", Quick: map[string]int{"L": 2}, Thorough: map[string]int{"L": 3}},
		{Name: "HarnessC06LiteralBoolText", Pkg: "leaf"},
		{Name: "HarnessC06Predicate", Pkg: "leaf", Quick: map[string]int{"L": 2}, Thorough: map[string]int{"L": 3}, PoolDirty: true},
		{Name: "HarnessC06Triple", Pkg: "leaf", PoolDirty: true},
		{Name: "HarnessC06Concurrent", Pkg: "leaf", PoolDirty: true, Schedule: true, Race: true, Preempt: 3, Note: "two goroutines sharing the buffer pool, every schedule at Get/Put granularity"},
	},
	"C15": {
		{Name: "HarnessC15Node", Pkg: "leaf", Quick: map[string]int{"N": 4}, Thorough: map[string]int{"N": 6}},
		{Name: "HarnessC15Predicate", Pkg: "leaf", Quick: map[string]int{"N": 4}, Thorough: map[string]int{"N": 6}},
		{Name: "HarnessC15PredicateTemplate", Pkg: "leaf", Quick: map[string]int{"ID": 3, "A": 1}, Thorough: map[string]int{"ID": 5, "A": 2}},
		{Name: "HarnessC15Literal", Pkg: "leaf", Quick: map[string]int{"N": 4}, Thorough: map[string]int{"N": 6}},
		{Name: "HarnessC15LiteralTyped", Pkg: "leaf", Quick: map[string]int{"N": 2}, Thorough: map[string]int{"N": 4}},
		{Name: "HarnessC15Object", Pkg: "leaf", Quick: map[string]int{"N": 4}, Thorough: map[string]int{"N": 5}},
		{Name: "HarnessC15Reader", Pkg: "store", Quick: map[string]int{"GOOD": 2}, Thorough: map[string]int{"GOOD": 3}},
	},
}

var commonAssumptions = []string{
	"bounds: string/slice lengths, numbers of operations and skeleton choices are those listed per harness in coverage.harnesses[].params; nothing is claimed outside them",
	"intrinsics re-implemented in the engine (internal/bytealg, fmt verbs %s %q %v %d %t %T %f, sync, sync/atomic, sort.Slice, reflect.DeepEqual, unsafe.String/SliceData, math.Float64bits) are trusted and spot-checked by the native differential validation (traces_validated_against_impl)",
	"fmt.Errorf messages are built lazily (only when Error() is called)",
	"z3 5.1.0 (default), z3 4.8.12 and cvc5 1.0 verdicts are trusted; any (error or unknown answer makes the run inconclusive",
}

func assumptionsFor(prop string) []string {
	out := append([]string(nil), commonAssumptions...)
	out = append(out, propAssumptions[prop]...)
	return out
}

var propAssumptions = map[string][]string{
	"C07": {"two goroutines, one operation each, on one graph / one store holding concrete triples; six scenarios (batch add vs listing, add vs remove, remove vs lookup, concurrent create/drop/list of graphs, two lookups sharing one LookupOptions with LatestAnchor, two lookups with default options)", "every interleaving at synchronisation-operation granularity (go, lock/unlock, channel operations, WaitGroup) with at most 3 preemptions is explored by the engine's scheduler; sync.RWMutex is modelled with Go's writer preference", "happens-before race detection with vector clocks over interpreted loads/stores and map operations; the Go memory model (data-race-free programs are sequentially consistent) justifies the granularity", "native confirmation of a reported race: the two operations re-run 300 times under the Go race detector", "weak-memory effects, more than two goroutines and real parallel hardware are outside the claim; the planner's own concurrency is exercised only on its canonical schedule (C03, C08, C20)"},
	"C14": {"ten one- and two-clause SELECT shapes (those of C03 without a fully specified clause) over K symbolic immutable triples; six relations: renaming, chanSize in {1,4} x bulkSize in {1,2}, repetition, clause order, partition of the data over two FROM graphs (identical triples kept together), one added triple (monotonicity)", "result tables compared fork-free as multisets of printed rows", "GOMAXPROCS and real scheduling are not modelled (canonical schedule of the engine's coroutines); ORDER BY determinism under map order is not covered yet"},
	"C20": {"the fault schedule is a sequence of solver-controlled choices, one per driver call (Store.NewGraph/Graph/DeleteGraph/GraphNames, Graph.AddTriples/RemoveTriples/Exist and the eleven lookups): no fault, error before delivering anything, or error after the first element; at most FAULTS faults per execution", "corpus of 17 statements (every simpleFetch branch, a two-clause join, two FROM graphs, INSERT, DELETE, CONSTRUCT, DECONSTRUCT, SHOW, CREATE, DROP) against a wrapped memory store with two graphs", "the wrapper keeps the channel contract (close before return); canonical schedule of the engine's coroutines; leak check as in C08"},
	"C08": {"stage 1 (bytes -> tokens) is C16; stage 2: ten statement templates with one hole of up to N symbolic 7-bit bytes in a token position (node, predicate, object, limit, time bound, having operand, projection, graph); stage 3: every token-type sequence up to L decided by the plain parser, rendered with sample texts; plus a corpus of 16 awkward well-formed statements; each against an empty and a three-triple store", "goroutines: the engine runs the lexer goroutine, update() writers and the planner's errgroup workers as coroutines on one canonical schedule; leak check = goroutines started and not finished once everything runnable has run", "texts outside the sample pool in stage 3, holes longer than N, and schedules other than the canonical one are outside the claim"},
	"C04": {"one statement per run from a corpus of eleven (INSERT/DELETE into one and two graphs, CREATE, DROP, CONSTRUCT, DECONSTRUCT, CONSTRUCT with ';' reification, CONSTRUCT into a missing graph, CREATE of an existing graph) against a store with two graphs holding K symbolic immutable triples each", "graph contents are read back through Graph.Triples and compared fork-free with the expected set (pre-state plus/minus the listed or instantiated triples); the WHERE solutions are the reference of C03", "blank nodes come from the uuid.NewRandom stub (pairwise distinct values)"},
	"C03": {"the statement is concrete (17 one- and two-clause shapes of the conjunctive fragment: constants, new and repeated bindings in every position, anchored and anchor-binding predicates, joins on one and two bindings, a product, an existence clause), the data is symbolic: K triples over the universe /u<a|b>, predicate a|b immutable or temporal at one of two anchors, object node or text", "whole pipeline executed from text: lexer, parser, semantic hooks, planner, memory driver, with its goroutines (canonical schedule; rows compared as a multiset)", "reference: brute-force assignments clause -> stored triple, compared fork-free (every row is a solution, every solution is a row, row count = number of solutions)"},
	"C10": {"kernel: Table.LeftOptionalJoin on two tables of <= ROWS rows sharing 0, 1 or 2 bindings; join cells are one symbolic byte over {a,b} (string cells; with KINDS>0 also text-literal and node cells); rows are tagged with id columns so every output row is attributed to its (left,right) pair", "the end-to-end OPTIONAL obligations (through the planner) are listed in the same evidence when registered"},
	"C11": {"kernel: Table.Reduce with count, count distinct and int64 sum on <= ROWS rows, grouping cells one symbolic byte over {a,b}, values symbolic in [-3,3]; sort.Sort interpreted from its source", "float sums are not covered"},
	"C12": {"int64 keys: full 64-bit range through ToComparableString (%032d, witness digits), decided by cvc5 --solve-bv-as-int=sum", "time keys and float keys: concrete pools (enumerated, not solved)", "permutation: string cells of one symbolic byte over {a,b,c}, one or two keys, every direction combination", "LIMIT clause: text of an optional sign and up to D symbolic bytes from '/'..':' with type int64/float64/text, through the real lexer, parser and hooks"},
	"C13": {"leaves: int64 cell symbolic over the full range against constants from a pool of 8; text/string cells and constants up to L symbolic printable bytes without quote; times from a concrete pool; boolean structure over two symbolic leaves in six shapes", "the filtering step of the planner (queryPlan.having) is covered with the end-to-end obligations when registered"},
	"C17": {"the grammar tables are finite: every rule and every pair of alternatives is covered (the rule and alternative indices are solver variables, concretized exhaustively)", "witness statements are built from the tables (shortest expansions, one candidate per place where the rule is mentioned) and validated by running the real lexer and parser with ProcessStart probes on a private copy of BQL()"},
	"C18": {"token types are solver variables (one byte each, every type except Error/EOF) injected through the overlay shim grammar.NewLLkFromTokens; token texts come from a fixed sample per type", "reference recogniser: predictive descent over the same Grammar value (optional part taken iff its first token is next)", "statement 1 of the no-state check: every token sequence up to L the plain parser inspects, optionally prefixed by a cut-off INSERT; statement 2 from a corpus of nine statements (all kinds)"},
	"C19": {"data: three concrete triples (two sharing a subject); the quantified space is the history (skeleton choices: operation, handle, argument) and the lookup options (MaxElements, Offset symbolic in [0,3], so key coincidences are solver decisions)", "pre-history: two triples added through handle 0 and the full listing read once through every handle (warms every cache)", "reads compared as sequences by pointer identity of the stored triple objects; lock-step oracle = a plain memory store"},
	"C01": {"universe: subjects /t<a|b>, predicate ids a|b (immutable, or temporal at one of two spellings of one instant), objects node /t<a|b> or text a|b; component bytes are solver variables, kinds are skeleton choices", "pre-state produced by the real code from Add(b1);Remove(b2); one further Add/Remove and interference on a second graph", "SHA-1 as in C06 (equalities of whole hash outputs rewritten to input equalities)"},
	"C02": {"as C01; lookup arguments are fresh symbolic components (the solver decides whether they coincide with stored ones); options = DefaultLookup", "results are identified with the stored triple whose component object the driver handed out (pointer identity)"},
	"C09": {"as C02; anchors and window bounds from a concrete pool (two spellings of one instant, a later instant, +1ns); MaxElements and Offset in [0,3] as skeleton choices; the full-range page arithmetic is HarnessC09PageOverflow (n,k in (0,2^32))", "the reference post-processes the default-options result of the same lookup (assume-guarantee with C02)", "stored predicates do not share their identifier with a query predicate of the other kind (that mismatch is C02's known finding)"},
	"C05": {"node text in the documented domain (types without '<' '>' and whitespace; ids without '<' '>' and whitespace)", "predicate ids: any bytes except whitespace; anchors from a concrete pool of four instants (two zones, nanosecond precision), printed and parsed by the interpreted time package", "float64 literals from a concrete pool of 9 (incl. -0, +-Inf, NaN, subnormal, max): native formatting/parsing, not solver-decided", "int64: full 64-bit range, decimal printing modelled with witness digits, decided by cvc5 --solve-bv-as-int=sum", "triples: 7-bit bytes, small component lengths (params SI, PI, OT); regexp splitting interpreted from the Go regexp package source"},
	"C16": {"inputs: all strings up to N bytes over 7-bit bytes, and over all 256 byte values up to a smaller N; channel capacities 0, 1, N+1", "whitespace property: both words are assumed to lex, on their own, to exactly one non-error token (the property speaks of whitespace between two tokens)", "printed forms: node types and ids in the documented domain (types without '<' '>'), predicate ids / text without '\"', anchors from a concrete pool of four instants", "unicode.IsLetter/IsDigit/IsSpace/ToLower on symbolic runes are summarised exactly (range tables computed from the same Go release)"},
	"C06": {"SHA-1 truncated to a version-5 UUID is modelled as real SHA-1 on concrete input and as 16 uninterpreted byte functions per input length on symbolic input, with injectivity instantiated for every pair of applications on a path: no claim about SHA-1 collisions", "node text restricted to the documented domain (no whitespace, no <> in ids, type starts with / and does not end with /)", "temporal anchors: seconds from a concrete pool {0,1,1.6e9}, nanoseconds fully symbolic, three zones; float64 values from a concrete pool of 9 (compared by bit pattern)", "sync.Pool.Get may return a previously Put (dirty) buffer in HarnessC06LiteralDefined"},
	"C15": {"time.Parse/Format are interpreted from the Go standard library source on the anchor text; re-print obligations are asserted for immutable predicates only", "float64 literals: accepted inputs are not re-printed (float formatting of symbolic values is outside the encoding)"},
}

var _ = time.Second
