#!/bin/bash
# usage: seedcheck.sh <ID> <seeddir> [property ...]
# Confirms a seeded change in a scratch worktree (compiles, suite green, demo fails with / passes
# without), then applies it to /repo, runs the given checks (quick), and restores /repo.
set -u
ID=$1; SD=$2; shift 2
WT=/tmp/wt/$ID
export GOFLAGS=-mod=mod GOPROXY=off
[ -d $WT ] || git -C /repo worktree add -q $WT HEAD
cd $WT && git checkout -q -- . && git clean -fdq
DEMO=$(ls $SD/*_test.go 2>/dev/null | head -1)
DEMOREL=$(grep -o '[a-z/]*zz_demo_test.go' $SD/demo_cmd.txt | head -1)
CMD=$(grep -o 'go test[^`]*' $SD/demo_cmd.txt | head -1)
echo "== $ID demo=$DEMOREL cmd=$CMD"
git apply $SD/patch.diff || { echo "PATCH DOES NOT APPLY"; exit 2; }
go build ./... || { echo "DOES NOT COMPILE"; exit 2; }
if go test -count=1 ./... > /tmp/wt/$ID.suite.log 2>&1; then echo "suite with change: PASS"; else echo "suite with change: FAIL"; grep -v "^ok\|no test files" /tmp/wt/$ID.suite.log | head -5; fi
cp $DEMO $WT/$DEMOREL
if (cd $WT && eval "$CMD") > /tmp/wt/$ID.demo1.log 2>&1; then echo "demo with change: PASS (unexpected)"; else echo "demo with change: FAIL (expected)"; fi
git checkout -q -- . 
if (cd $WT && eval "$CMD") > /tmp/wt/$ID.demo0.log 2>&1; then echo "demo without change: PASS (expected)"; else echo "demo without change: FAIL (unexpected)"; fi
git clean -fdq
cd /verif
git -C /repo apply $SD/patch.diff || { echo "cannot apply to /repo"; exit 2; }
for p in "$@"; do
  out=$(./check $p --tier ${TIER:-quick} 2>&1); rc=$?
  echo "-- check $p rc=$rc"; echo "$out" | grep "VIOLATION\|^  obligation\|INCONCLUSIVE\|^OK" | cut -c1-300 | head -8
done
git -C /repo checkout -- .
git -C /repo status --short | head -3
