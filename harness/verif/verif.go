// Package zzverif is the harness API of the gosym checker.
//
// Under the symbolic engine every function below is intercepted by name (the
// bodies here are never interpreted).  Compiled natively — for replaying a
// solver counterexample or for the differential self-check of passing paths —
// the bodies read the inputs from a replay vector (JSON file named by
// $GOSYM_VECTOR) and report assertion outcomes on stdout.
package zzverif

import (
	"encoding/json"
	"fmt"
	"os"
	"runtime"
	"time"
)

type vector struct {
	Harness string            `json:"harness"`
	Vars    map[string]uint64 `json:"vars"`
	Params  map[string]int    `json:"params"`
}

var (
	vec     vector
	loaded  bool
	counts  = map[string]int{}
	Failed  []string
	Obs     []string
	classes []string
)

// Load reads the replay vector (native mode only).
func Load(path string) error {
	b, err := os.ReadFile(path)
	if err != nil {
		return err
	}
	vec = vector{}
	counts = map[string]int{}
	Failed = nil
	Obs = nil
	classes = nil
	loaded = true
	return json.Unmarshal(b, &vec)
}

func next(name string) uint64 {
	n := counts[name]
	counts[name] = n + 1
	if n > 0 {
		name = fmt.Sprintf("%s#%d", name, n)
	}
	return vec.Vars[name]
}

// Symbolic reports whether the code runs under the symbolic engine.
func Symbolic() bool { return false }

func Byte(name string) byte     { return byte(next(name)) }
func Bool(name string) bool     { return next(name) != 0 }
func Int(name string) int       { return int(next(name)) }
func Int64(name string) int64   { return int64(next(name)) }
func Int32(name string) int32   { return int32(next(name)) }
func Uint64(name string) uint64 { return next(name) }
func Uint32(name string) uint32 { return uint32(next(name)) }

// String returns a string of exactly n arbitrary bytes.
func String(name string, n int) string { return string(Bytes(name, n)) }

// Bytes returns n arbitrary bytes.
func Bytes(name string, n int) []byte {
	k := counts["$"+name]
	counts["$"+name] = k + 1
	base := name
	if k > 0 {
		base = fmt.Sprintf("%s#%d", name, k)
	}
	b := make([]byte, n)
	for i := range b {
		b[i] = byte(vec.Vars[fmt.Sprintf("%s[%d]", base, i)])
	}
	return b
}

// Choice is a skeleton fork: an arbitrary value in [0,k).
func Choice(name string, k int) int { return int(next("?" + name)) }

// Param returns a concrete parameter of the check (a bound), def if unset.
func Param(name string, def int) int {
	if v, ok := vec.Params[name]; ok {
		return v
	}
	return def
}

type assumeFailed struct{}

// Assume restricts the inputs considered.
func Assume(c bool) {
	if !c {
		panic(assumeFailed{})
	}
}

// Assert states a property obligation.
func Assert(c bool, obligation string) {
	if !c {
		Failed = append(Failed, obligation+"#"+class())
		fmt.Printf("ASSERT-FAIL %s#%s\n", obligation, class())
	}
}

// Fail is Assert(false, obligation).
func Fail(obligation string) { Assert(false, obligation) }

// Reach marks a program point that must be reachable (vacuity guard).
func Reach(id string) {}

// Class tags the current path with a witness class (for known findings).
func Class(tag string) { classes = append(classes, tag) }

func class() string {
	if len(classes) == 0 {
		return ""
	}
	return classes[len(classes)-1]
}

// Observe records a value for the engine-vs-native differential check.
func Observe(name string, v interface{}) {
	var s string
	switch x := v.(type) {
	case string:
		s = fmt.Sprintf("%x", x)
	case []byte:
		s = fmt.Sprintf("%x", x)
	case bool:
		s = fmt.Sprintf("%t", x)
	case nil:
		s = "nil"
	default:
		s = fmt.Sprintf("%d", x)
	}
	Obs = append(Obs, name+"="+s)
}

// RunNative executes f under a loaded vector and reports the outcome.
func RunNative(f func()) (outcome string) {
	defer func() {
		if r := recover(); r != nil {
			if _, ok := r.(assumeFailed); ok {
				outcome = "assume-failed"
				return
			}
			outcome = fmt.Sprintf("panic: %v", r)
		}
	}()
	f()
	return "done"
}

// And, Or, Implies combine conditions without branching, so that a harness
// can state a compound predicate as one solver term instead of a fork per
// operand (the arguments are evaluated eagerly).
func And(a, b bool) bool     { return a && b }
func Or(a, b bool) bool      { return a || b }
func Implies(a, b bool) bool { return !a || b }

// Count returns how many of the conditions hold (one solver term, no fork).
func Count(bs ...bool) int {
	n := 0
	for _, b := range bs {
		if b {
			n++
		}
	}
	return n
}

// LiveGoroutines lets every runnable goroutine run to quiescence and returns
// how many goroutines exist (natively: runtime.NumGoroutine after settling; in
// the engine: goroutines started by the harness that have not finished).
func LiveGoroutines() int {
	prev := -1
	for i := 0; i < 200; i++ {
		n := runtime.NumGoroutine()
		if n == prev && i > 20 {
			return n
		}
		prev = n
		time.Sleep(time.Millisecond)
	}
	return prev
}
