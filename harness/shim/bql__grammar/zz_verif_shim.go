//go:build verif

package grammar

import "github.com/google/badwolf/bql/lexer"

// NewLLkFromTokens builds the look-ahead buffer over a given token sequence
// instead of over lexed text (gosym harness shim, overlaid at check time, never
// written to the repository): it lets a harness make the token *types* solver
// variables.  It touches nothing but LLk's three fields.
func NewLLkFromTokens(toks []lexer.Token, k int) *LLk {
	c := make(chan lexer.Token, len(toks)+1)
	for _, t := range toks {
		c <- t
	}
	close(c)
	l := &LLk{k: k, c: c}
	for i := 0; i < k+1; i++ {
		appendNextToken(l)
	}
	return l
}
