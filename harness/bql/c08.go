package zzbql

import (
	"fmt"

	"github.com/google/badwolf/bql/lexer"
	verif "github.com/google/badwolf/internal/zzverif"
	"github.com/google/badwolf/bql/grammar"
	"github.com/google/badwolf/bql/planner"
	"github.com/google/badwolf/bql/semantic"
	"github.com/google/badwolf/bql/table"
	"github.com/google/badwolf/storage"
	"github.com/google/badwolf/triple"
)

func c08Store(populated bool) storage.Store {
	var ts []*triple.Triple
	if populated {
		ts = []*triple.Triple{
			mustTriple(mustNode("/u", "a"), mustImmutable("p"), triple.NewNodeObject(mustNode("/u", "b"))),
			mustTriple(mustNode("/u", "b"), mustImmutable("p"), textObj("x")),
			mustTriple(mustNode("/u", "a"), mustImmutable("q"), triple.NewLiteralObject(intCell(7).L)),
			mustTriple(mustNode("/u", "b"), mustImmutable("q"), triple.NewLiteralObject(floatCell(1.5).L)),
		}
	}
	st, _ := newStoreWith("?g", ts)
	return st
}

// execute runs the whole pipeline on text and checks the C08 obligations:
// no panic, a table or an error, and no goroutine left behind.
func c08Execute(st storage.Store, text string, id string) {
	before := verif.LiveGoroutines()
	var tbl *table.Table
	var err error
	parseFailed := false
	if !noPanic(id+"/no-panic", func() {
		p, perr := grammar.NewParser(grammar.SemanticBQL())
		if perr != nil {
			err = perr
			return
		}
		stm := &semantic.Statement{}
		if err = p.Parse(grammar.NewLLk(text, 1), stm); err != nil {
			parseFailed = true
			return
		}
		pln, nerr := planner.New(ctx, st, stm, 0, 2, nil)
		if nerr != nil {
			err = nerr
			return
		}
		tbl, err = pln.Execute(ctx)
	}) {
		return
	}
	verif.Reach("returned")
	verif.Assert(tbl != nil || err != nil, id+"/table-or-error")
	after := verif.LiveGoroutines()
	if parseFailed {
		// known: Parser.Parse returns at the first error without draining the lexer
		verif.Class("parse-error-leaves-the-lexer-goroutine-blocked")
	}
	verif.Assert(after == before, id+"/no-goroutine-left")
	verif.Class("")
}

var c08Templates = []string{
	"select ?s from ?g where { @ \"p\"@[] ?o } ;",
	"select ?s from ?g where { ?s @ ?o } ;",
	"select ?s from ?g where { ?s \"p\"@[] @ } ;",
	"insert data into ?g { /u<a> \"p\"@[] @ } ;",
	"insert data into ?g { @ \"p\"@[] /u<b> } ;",
	"select ?s from ?g where { ?s \"p\"@[] ?o } limit @ ;",
	"select ?s from ?g where { ?s \"p\"@[] ?o } before @ ;",
	"select ?s, ?o from ?g where { ?s \"p\"@[] ?o } having ?o = @ ;",
	"select @ from ?g where { ?s \"p\"@[] ?o } ;",
	"select ?s from @ where { ?s \"p\"@[] ?o } ;",
	// the hole inside a literal value, one template per literal type and position
	"insert data into ?g { /u<a> \"p\"@[] \"\x00\"^^type:blob } ;",
	"insert data into ?g { /u<a> \"p\"@[] \"\x00\"^^type:int64 } ;",
	"select ?s from ?g where { ?s \"p\"@[] \"\x00\"^^type:bool } ;",
	"select ?s, ?o from ?g where { ?s \"p\"@[] ?o } having ?o = \"\x00\"^^type:blob ;",
	"select ?s from ?g where { ?s \"p\"@[] ?o } limit \"\x00\"^^type:int64 ;",
	"select ?s from ?g where { ?s \"p\"@[\x00] ?o } ;",
	"select ?s from ?g where { ?s \"p\"@[] ?o } having ?s = /u<\x00> ;",
}

// C08 (stage 2): a statement template with one hole of up to N symbolic bytes
// in a token position: whatever the lexer makes of it, the pipeline returns a
// table or an error, without panic and without leaving goroutines.
func HarnessC08Hole() {
	t := verif.Param("TEMPLATE", -1)
	if t < 0 {
		t = verif.Choice("template", len(c08Templates))
	}
	n := verif.Choice("len", verif.Param("N", 2)+1)
	hole := verif.String("hole", n)
	if verif.Param("ASCII", 1) == 1 {
		for i := 0; i < len(hole); i++ {
			verif.Assume(hole[i] < 0x80)
		}
	}
	tpl := c08Templates[t]
	text := ""
	for i := 0; i < len(tpl); i++ {
		if tpl[i] == 0 || (tpl[i] == '@' && i+1 < len(tpl) && tpl[i+1] == ' ' && (i == 0 || tpl[i-1] == ' ')) {
			text += hole
		} else {
			text += string(tpl[i])
		}
	}
	c08Execute(c08Store(verif.Choice("populated", 2) == 1), text, "C08/hole")
}

// C08 (stage 3): every token-type sequence of length L the grammar admits or
// rejects, with sample texts, through SemanticBQL, planner.New and Execute
// against an empty and a populated store.
func HarnessC08Tokens() {
	L := verif.Param("L", 6)
	n := verif.Choice("len", L+1)
	toks := symTokens(n)
	plain, err := grammar.NewParser(grammar.BQL())
	verif.Assume(err == nil)
	llk := grammar.NewLLkFromTokens(toks, 1)
	perr := plain.Parse(llk, &semantic.Statement{})
	text := pinnedText(inspected(toks, llk, perr))
	c08Execute(c08Store(verif.Choice("populated", 2) == 1), text, "C08/tokens")
}

var c08Corpus = []string{
	`select ?s, sum(?o) as ?x from ?g where { ?s "q"@[] ?o } group by ?s ;`,
	`select ?s, sum(?o) as ?x from ?g where { ?s "zz"@[] ?o } group by ?s ;`,
	`select ?s, count(?o) as ?x from ?g where { ?s "zz"@[] ?o } group by ?s ;`,
	`select ?s from ?g where { ?s "p"@[] ?o } limit "0"^^type:int64 ;`,
	`select ?s from ?g where { ?s "p"@[] ?o } limit "9223372036854775807"^^type:int64 ;`,
	`select ?s, ?p, ?o from ?g where { ?s ?p ?o } limit "9223372036854775807"^^type:int64 ;`,
	`select ?s, ?p, ?o from ?g where { ?s ?p ?o } limit "4611686018427387904"^^type:int64 ;`,
	`select ?s, sum(?o) as ?x from ?g where { ?s ?p ?o } group by ?s ;`,
	`select ?p, sum(?o) as ?x from ?g where { ?s ?p ?o } group by ?p order by ?x having ?x > "1"^^type:int64 limit "2"^^type:int64 ;`,
	`select ?s, count(distinct ?o) as ?x, count(?p) as ?y from ?g where { ?s ?p ?o } group by ?s ;`,
	`select ?s from ?nope where { ?s "p"@[] ?o } ;`,
	`select ?s from ?g where { ?s "p"@[] ?o } order by ?s, ?s desc ;`,
	`select ?s from ?g where { ?s "p"@[] ?o . optional { ?o "zz"@[] ?z } } ;`,
	`insert data into ?nope { /u<a> "p"@[] /u<b> } ;`,
	`delete data from ?g { /u<a> "p"@[] /u<b> } ;`,
	`construct { ?s "r"@[] ?o } into ?nope from ?g where { ?s "p"@[] ?o } ;`,
	`drop graph ?nope ;`,
	`create graph ?g ;`,
	`show graphs ;`,
	`select ?s from ?g where { ?s "p"@[] ?o } having ?s < /u<a> ;`,
	`select ?o from ?g where { ?s "q"@[] ?o } having ?o > "3"^^type:int64 ;`,
	`select ?s, ?oid from ?g where { ?s ?p ?o id ?oid } ;`,
	`select ?s, ?ot from ?g where { ?s ?p ?o type ?ot } ;`,
	`select ?s, ?o, ?oid from ?g where { /u<a> "p"@[] ?x . optional { ?s ?p ?o id ?oid } } ;`,
	`select ?s, ?o, ?ot from ?g where { /u<a> "p"@[] ?x . optional { ?s ?p ?o type ?ot } } ;`,
	`select ?s, ?t from ?g where { /u<a> "p"@[] ?x . optional { ?s ?p at ?t ?o } } ;`,
	`select ?s, ?t from ?g where { /u<a> "p"@[] ?x . optional { ?s "q"@[?t] ?o } } ;`,
	`select ?s, ?o, ?t from ?g where { /u<a> "p"@[] ?x . optional { ?s ?p ?o at ?t } } ;`,
	`select ?sid, ?pid from ?g where { ?s id ?sid ?p id ?pid ?o } ;`,
	`select ?st from ?g where { ?s type ?st "p"@[] ?o } ;`,
	// a binding used where the value it holds does not fit: a node or a literal as anchor, as predicate, a literal as subject
	`select ?s, ?x from ?g where { ?t "p"@[] ?o . ?s "q"@[?t] ?x } ;`,
	`select ?s, ?x from ?g where { ?s "p"@[] ?t . ?s "q"@[?t] ?x } ;`,
	`select ?s, ?x from ?g where { ?s "p"@[] ?t . ?s "q"@[?t,?t] ?x } ;`,
	`select ?s, ?x from ?g where { ?s "p"@[] ?o . ?o "p"@[] ?x } ;`,
	`select ?s, ?x from ?g where { ?s "p"@[] ?o . ?s ?o ?x } ;`,
	`select ?s, ?x from ?g where { ?s "q"@[] ?o . ?x "p"@[] ?o } ;`,
	// CONSTRUCT / DECONSTRUCT over an empty result, over one row, into the graph they read
	`construct { ?s "r"@[] ?o } into ?g from ?g where { ?s "zz"@[] ?o } ;`,
	`deconstruct { ?s "p"@[] ?o } in ?g from ?g where { ?s "zz"@[] ?o } ;`,
	`construct { ?s "r"@[] ?o ; "r2"@[] ?o } into ?g from ?g where { ?s "p"@[] ?o } ;`,
	`deconstruct { ?s "p"@[] ?o } in ?g from ?g where { ?s "p"@[] ?o } ;`,
}

// C08 (corpus): awkward but well-formed statements (aggregates over empty
// results, extreme limits, unknown graphs) against empty and populated stores.
func HarnessC08Corpus() {
	q := c08Corpus[verif.Choice("q", len(c08Corpus))]
	c08Execute(c08Store(verif.Choice("populated", 2) == 1), q, "C08/corpus")
}

var c08Prefixes = [][]lexer.TokenType{
	// select ?x from ?x where { ?x "p"@[] ?x }
	{lexer.ItemQuery, lexer.ItemBinding, lexer.ItemFrom, lexer.ItemBinding, lexer.ItemWhere, lexer.ItemLBracket, lexer.ItemBinding, lexer.ItemPredicate, lexer.ItemBinding, lexer.ItemRBracket},
	// select ?x , count ( ?x ) as ?x from ?x where { ?x "p"@[] ?x }
	{lexer.ItemQuery, lexer.ItemBinding, lexer.ItemComma, lexer.ItemCount, lexer.ItemLPar, lexer.ItemBinding, lexer.ItemRPar, lexer.ItemAs, lexer.ItemBinding, lexer.ItemFrom, lexer.ItemBinding, lexer.ItemWhere, lexer.ItemLBracket, lexer.ItemBinding, lexer.ItemPredicate, lexer.ItemBinding, lexer.ItemRBracket},
	// select ?x from ?x where { ?x "p"@[] ?x   (the tail continues the pattern)
	{lexer.ItemQuery, lexer.ItemBinding, lexer.ItemFrom, lexer.ItemBinding, lexer.ItemWhere, lexer.ItemLBracket, lexer.ItemBinding, lexer.ItemPredicate, lexer.ItemBinding},
	// construct { ?x "p"@[] ?x } into ?x from ?x where { ?x "p"@[] ?x }
	{lexer.ItemConstruct, lexer.ItemLBracket, lexer.ItemBinding, lexer.ItemPredicate, lexer.ItemBinding, lexer.ItemRBracket, lexer.ItemInto, lexer.ItemBinding, lexer.ItemFrom, lexer.ItemBinding, lexer.ItemWhere, lexer.ItemLBracket, lexer.ItemBinding, lexer.ItemPredicate, lexer.ItemBinding, lexer.ItemRBracket},
	// construct { ?x "p"@[] ?x    (the tail continues the template)
	{lexer.ItemConstruct, lexer.ItemLBracket, lexer.ItemBinding, lexer.ItemPredicate, lexer.ItemBinding},
	// select ?x from ?x where { ?x "p"@[] ?x } having
	{lexer.ItemQuery, lexer.ItemBinding, lexer.ItemFrom, lexer.ItemBinding, lexer.ItemWhere, lexer.ItemLBracket, lexer.ItemBinding, lexer.ItemPredicate, lexer.ItemBinding, lexer.ItemRBracket, lexer.ItemHaving},
	// ... having ( ?x
	{lexer.ItemQuery, lexer.ItemBinding, lexer.ItemFrom, lexer.ItemBinding, lexer.ItemWhere, lexer.ItemLBracket, lexer.ItemBinding, lexer.ItemPredicate, lexer.ItemBinding, lexer.ItemRBracket, lexer.ItemHaving, lexer.ItemLPar, lexer.ItemBinding},
	// ... order by ?x
	{lexer.ItemQuery, lexer.ItemBinding, lexer.ItemFrom, lexer.ItemBinding, lexer.ItemWhere, lexer.ItemLBracket, lexer.ItemBinding, lexer.ItemPredicate, lexer.ItemBinding, lexer.ItemRBracket, lexer.ItemOrder, lexer.ItemBy, lexer.ItemBinding},
	// ... group by ?x
	{lexer.ItemQuery, lexer.ItemBinding, lexer.ItemFrom, lexer.ItemBinding, lexer.ItemWhere, lexer.ItemLBracket, lexer.ItemBinding, lexer.ItemPredicate, lexer.ItemBinding, lexer.ItemRBracket, lexer.ItemGroup, lexer.ItemBy, lexer.ItemBinding},
	// ... { ?x "p"@[] ?x . filter
	{lexer.ItemQuery, lexer.ItemBinding, lexer.ItemFrom, lexer.ItemBinding, lexer.ItemWhere, lexer.ItemLBracket, lexer.ItemBinding, lexer.ItemPredicate, lexer.ItemBinding, lexer.ItemDot, lexer.ItemFilter},
	// ... { ?x "p"@[] ?x . optional {
	{lexer.ItemQuery, lexer.ItemBinding, lexer.ItemFrom, lexer.ItemBinding, lexer.ItemWhere, lexer.ItemLBracket, lexer.ItemBinding, lexer.ItemPredicate, lexer.ItemBinding, lexer.ItemDot, lexer.ItemOptional, lexer.ItemLBracket},
}

// C08 (stage 3'): a well-formed statement prefix followed by every token-type
// sequence of length <= L the plain parser inspects (GROUP BY / ORDER BY /
// HAVING / time bound / LIMIT tails, further clauses, construct templates),
// through SemanticBQL with its hooks, planner.New and Execute.
func HarnessC08Tail() {
	L := verif.Param("L", 4)
	pi := verif.Param("PREFIX", -1)
	if pi < 0 {
		pi = verif.Choice("prefix", len(c08Prefixes))
	}
	var toks []lexer.Token
	for i, t := range c08Prefixes[pi] {
		toks = append(toks, lexer.Token{Type: t, Text: fmt.Sprint(i)})
	}
	n := verif.Choice("len", L+1)
	tail := symTokens(n)
	for i := range tail {
		tail[i].Text = fmt.Sprint(len(toks) + i)
	}
	toks = append(toks, tail...)
	plain, err := grammar.NewParser(grammar.BQL())
	verif.Assume(err == nil)
	llk := grammar.NewLLkFromTokens(toks, 1)
	perr := plain.Parse(llk, &semantic.Statement{})
	seen := inspected(toks, llk, perr)
	if perr != nil && len(seen) > 0 {
		// the token the grammar rejects is never handed to a hook and no statement
		// can end here (every statement ends in ';'): the text is cut before it, so
		// that the pipeline fails at the same point on end of input
		seen = seen[:len(seen)-1]
	}
	text := pinnedText(seen)
	c08Execute(c08Store(verif.Choice("populated", 2) == 1), text, "C08/tail")
}
