package zzbql

import (
	"sort"
	"time"

	verif "github.com/google/badwolf/internal/zzverif"
	"github.com/google/badwolf/bql/table"
	"github.com/google/badwolf/storage"
	"github.com/google/badwolf/storage/memory"
	"github.com/google/badwolf/triple"
)

// xclause is a WHERE clause of the conjunctive fragment with the extraction
// keywords (AS / ID / TYPE / AT) and a predicate time window.
type xclause struct {
	qclause
	sAs, sID, sType      string
	pAs, pID, pAt        string
	oAs, oID, oType, oAt string
	bound                bool // constant predicate written "x"@[lo,hi]
	lo, hi               int  // indexes into bounds, -1 = open side
	okc                  int  // anchor index of a constant temporal predicate object (c.ok == 4)
	oAtBind              string // constant predicate object with an anchor binding: "x"@[?t]
	oBound               bool   // constant predicate object with a window: "x"@[olo,ohi]
	olo, ohi             int
}

// instants used as window and global bounds, around the two data anchors:
// before both, = anchors[0], between, = anchors[1], after both.
var bounds = []time.Time{
	time.Date(2019, 1, 1, 0, 0, 0, 0, time.UTC),
	anchors[0],
	time.Date(2020, 6, 1, 0, 0, 0, 0, time.UTC),
	anchors[1],
	time.Date(2022, 1, 1, 0, 0, 0, 0, time.UTC),
}

const tfmt = "2006-01-02T15:04:05.999999999Z07:00"

// window is a closed interval over instants; -1 = open side.
type window struct{ lo, hi int }

var noWindow = window{-1, -1}

func (w window) contains(t time.Time) bool {
	if w.lo >= 0 && t.Before(bounds[w.lo]) {
		return false
	}
	if w.hi >= 0 && t.After(bounds[w.hi]) {
		return false
	}
	return true
}

func (w window) text() string {
	switch {
	case w.lo >= 0 && w.hi >= 0:
		return " between " + bounds[w.lo].Format(tfmt) + ", " + bounds[w.hi].Format(tfmt)
	case w.lo >= 0:
		return " after " + bounds[w.lo].Format(tfmt)
	case w.hi >= 0:
		return " before " + bounds[w.hi].Format(tfmt)
	}
	return ""
}

func (c xclause) text() string {
	s := "?" + c.s.bind
	if c.s.bind == "" {
		s = "/u<" + string([]byte{c.s.cb}) + ">"
	}
	if c.sAs != "" {
		s += " as ?" + c.sAs
	}
	if c.sID != "" {
		s += " id ?" + c.sID
	}
	if c.sType != "" {
		s += " type ?" + c.sType
	}
	p := "?" + c.p.bind
	if c.p.bind == "" {
		p = "\"" + string([]byte{c.p.cb}) + "\"@["
		switch {
		case c.at != "":
			p += "?" + c.at
		case c.bound:
			if c.lo >= 0 {
				p += bounds[c.lo].Format(tfmt)
			}
			p += ","
			if c.hi >= 0 {
				p += bounds[c.hi].Format(tfmt)
			}
		case c.pk == 1:
			p += anchors[c.pa].Format(tfmt)
		}
		p += "]"
	}
	if c.pAs != "" {
		p += " as ?" + c.pAs
	}
	if c.pID != "" {
		p += " id ?" + c.pID
	}
	if c.pAt != "" {
		p += " at ?" + c.pAt
	}
	o := "?" + c.o.bind
	if c.oAtBind != "" {
		o = "\"" + string([]byte{c.o.cb}) + "\"@[?" + c.oAtBind + "]"
	} else if c.oBound {
		o = "\"" + string([]byte{c.o.cb}) + "\"@["
		if c.olo >= 0 {
			o += bounds[c.olo].Format(tfmt)
		}
		o += ","
		if c.ohi >= 0 {
			o += bounds[c.ohi].Format(tfmt)
		}
		o += "]"
	} else if c.o.bind == "" {
		switch c.ok {
		case 0:
			o = "/u<" + string([]byte{c.o.cb}) + ">"
		case 1:
			o = "\"" + string([]byte{c.o.cb}) + "\"^^type:text"
		case 2:
			o = "\"" + string([]byte{'0' + c.o.cb - 'a'}) + "\"^^type:int64"
		case 3:
			o = "\"" + string([]byte{c.o.cb}) + "\"@[]"
		default:
			o = "\"" + string([]byte{c.o.cb}) + "\"@[" + anchors[c.okc].Format(tfmt) + "]"
		}
	}
	if c.oAs != "" {
		o += " as ?" + c.oAs
	}
	if c.oID != "" {
		o += " id ?" + c.oID
	}
	if c.oType != "" {
		o += " type ?" + c.oType
	}
	if c.oAt != "" {
		o += " at ?" + c.oAt
	}
	return s + " " + p + " " + o
}

func (d *dspec) sval() val { return val{kind: 0, b: d.sb} }
func (d *dspec) pval() val { return val{kind: 1, b: d.pb, pk: d.pk, pa: d.pa} }
func (d *dspec) oval() val {
	switch d.ok {
	case 0:
		return val{kind: 0, b: d.ob}
	case 1:
		return val{kind: 2, b: d.ob}
	case 2:
		return val{kind: 6, i: int64(d.ob) - 'a'}
	case 5:
		return val{kind: 8, b: d.ob}
	case 3:
		return val{kind: 1, b: d.ob}
	default:
		return val{kind: 1, b: d.ob, pk: 1, pa: d.oa}
	}
}

// xmatches: clause c is satisfied by stored triple d under environment e
// (extended with c's fresh bindings) and the global time window g.  One term.
func (c xclause) xmatches(d *dspec, e env, g window) bool { return c.xmatchesOpt(d, e, g, false) }

// xmatchesOpt: as xmatches; inside an OPTIONAL clause (optional = true) an
// extraction that cannot apply to the triple yields NULL for its binding
// instead of discarding the triple (docs/bql.md, "OPTIONAL clause").
func (c xclause) xmatchesOpt(d *dspec, e env, g window, optional bool) bool {
	r := true
	bind := func(name string, v val) {
		if name != "" {
			r = verif.And(r, e.bind(name, v))
		}
	}
	// subject
	if c.s.bind == "" {
		r = verif.And(r, d.sb == c.s.cb)
	} else {
		bind(c.s.bind, d.sval())
	}
	bind(c.sAs, d.sval())
	bind(c.sID, val{kind: 4, b: d.sb})
	bind(c.sType, val{kind: 5})
	// predicate
	if c.p.bind == "" {
		r = verif.And(r, d.pb == c.p.cb)
		switch {
		case c.at != "":
			if d.pk != 1 {
				if !optional {
					return false
				}
				bind(c.at, val{kind: 7})
			} else {
				bind(c.at, val{kind: 3, pa: d.pa})
			}
		case c.bound:
			if d.pk != 1 || !(window{c.lo, c.hi}).contains(anchors[d.pa]) {
				return false
			}
		case c.pk != d.pk || (c.pk == 1 && c.pa != d.pa):
			return false
		}
	} else {
		bind(c.p.bind, d.pval())
	}
	bind(c.pAs, d.pval())
	bind(c.pID, val{kind: 4, b: d.pb})
	if c.pAt != "" {
		if d.pk != 1 {
			if !optional {
				return false
			}
			bind(c.pAt, val{kind: 7})
		} else {
			bind(c.pAt, val{kind: 3, pa: d.pa})
		}
	}
	// the global window constrains temporal triples only
	if d.pk == 1 && !g.contains(anchors[d.pa]) {
		return false
	}
	// object
	if c.oAtBind != "" {
		if d.ok != 4 && !(optional && d.ok == 3) {
			return false
		}
		r = verif.And(r, d.ob == c.o.cb)
		if d.ok == 4 {
			bind(c.oAtBind, val{kind: 3, pa: d.oa})
		} else {
			bind(c.oAtBind, val{kind: 7})
		}
	} else if c.oBound {
		if d.ok != 4 || !(window{c.olo, c.ohi}).contains(anchors[d.oa]) {
			return false
		}
		r = verif.And(r, d.ob == c.o.cb)
	} else if c.o.bind == "" {
		if c.ok != d.ok || (c.ok == 4 && c.okc != d.oa) {
			return false
		}
		r = verif.And(r, d.ob == c.o.cb)
	} else {
		bind(c.o.bind, d.oval())
	}
	bind(c.oAs, d.oval())
	if c.oID != "" {
		switch d.ok {
		case 0, 3, 4:
			bind(c.oID, val{kind: 4, b: d.ob})
		default:
			if !optional {
				return false // no identifier to extract from a literal
			}
			bind(c.oID, val{kind: 7})
		}
	}
	if c.oType != "" {
		if d.ok != 0 {
			if !optional {
				return false
			}
			bind(c.oType, val{kind: 7})
		} else {
			bind(c.oType, val{kind: 5})
		}
	}
	if c.oAt != "" {
		if d.ok != 4 {
			if !optional {
				return false
			}
			bind(c.oAt, val{kind: 7})
		} else {
			bind(c.oAt, val{kind: 3, pa: d.oa})
		}
	}
	return r
}

func xbindingsOf(cs []xclause) []string {
	var out []string
	seen := map[string]bool{}
	add := func(ns ...string) {
		for _, n := range ns {
			if n != "" && !seen[n] {
				seen[n] = true
				out = append(out, n)
			}
		}
	}
	for _, c := range cs {
		add(c.s.bind, c.sAs, c.sID, c.sType, c.p.bind, c.at, c.pAs, c.pID, c.pAt, c.o.bind, c.oAtBind, c.oAs, c.oID, c.oType, c.oAt)
	}
	return out
}

// allTemporal makes symDataX draw temporal predicates only (set by a harness
// for shapes whose subject is the anchors).
var allTemporal bool

// symDataX is symData with a choice of object kinds.
func symDataX(name string, temporal bool, okinds []int, aset []int) *dspec {
	if len(aset) == 0 {
		aset = []int{0, 1}
	}
	d := &dspec{sb: verif.Byte(name + ".s"), pb: verif.Byte(name + ".p"), ob: verif.Byte(name + ".o")}
	verif.Assume(verif.And(alphaB(d.sb), verif.And(alphaB(d.pb), alphaB(d.ob))))
	if temporal {
		d.pk = 1
		if !allTemporal {
			d.pk = verif.Choice(name+".pk", 2)
		}
		if d.pk == 1 {
			d.pa = aset[verif.Choice(name+".pa", len(aset))]
		}
	}
	d.ok = okinds[0]
	if len(okinds) > 1 {
		d.ok = okinds[verif.Choice(name+".ok", len(okinds))]
	}
	if d.ok == 4 {
		d.oa = verif.Choice(name+".oa", baseAnchors)
	}
	d.t = d.build()
	return d
}

// solution is one assignment clause -> stored triple with the condition under
// which it is a solution of the pattern.
type solution struct {
	cond bool
	e    env
}

// xsolutions enumerates all assignments clause -> stored triple.
func xsolutions(cs []xclause, data []*dspec, g window) []solution {
	first := make([]bool, len(data))
	for i := range data {
		f := true
		for j := 0; j < i; j++ {
			f = verif.And(f, !data[i].eq(data[j]))
		}
		first[i] = f
	}
	var as []solution
	idx := make([]int, len(cs))
	for {
		e := env{}
		cond := true
		for ci, c := range cs {
			d := data[idx[ci]]
			cond = verif.And(cond, verif.And(first[idx[ci]], c.xmatches(d, e, g)))
		}
		as = append(as, solution{cond, e})
		k := 0
		for k < len(idx) {
			idx[k]++
			if idx[k] < len(data) {
				break
			}
			idx[k] = 0
			k++
		}
		if k == len(idx) {
			break
		}
	}
	return as
}

// checkTableIsSolutions: the table holds exactly one row per solution.
func checkTableIsSolutions(as []solution, bs []string, tbl *table.Table, id string) {
	bs = append([]string(nil), bs...)
	sort.Strings(bs)
	rowIs := func(r table.Row, e env) bool {
		ok := true
		for _, b := range bs {
			v, has := e[b]
			if !has {
				return false
			}
			ok = verif.And(ok, cellIs(r["?"+b], v))
		}
		return ok
	}
	conds := make([]bool, len(as))
	for i, a := range as {
		conds[i] = a.cond
	}
	verif.Assert(tbl.NumRows() == verif.Count(conds...), id+"/one-row-per-solution")
	for x := 0; x < tbl.NumRows(); x++ {
		r, _ := tbl.Row(x)
		any := false
		for _, a := range as {
			any = verif.Or(any, verif.And(a.cond, rowIs(r, a.e)))
		}
		verif.Assert(any, id+"/every-row-is-a-solution")
	}
	for _, a := range as {
		found := false
		for x := 0; x < tbl.NumRows(); x++ {
			r, _ := tbl.Row(x)
			found = verif.Or(found, rowIs(r, a.e))
		}
		verif.Assert(verif.Implies(a.cond, found), id+"/every-solution-is-a-row")
	}
}

type xshape struct {
	cs       []xclause
	okinds   []int
	temporal bool
	global   []window // global windows to choose from (nil = none)
	graphs   int      // number of FROM graphs (data partitioned by a skeleton choice), 0 = 1
	note     string
	filter   string // FILTER clauses appended to the pattern, e.g. "filter isTemporal(?p)"
	keep     func(e env, data []*dspec) bool // the solutions the FILTER keeps
}

func xq(c qclause) xclause { return xclause{qclause: c, lo: -1, hi: -1} }

func xselectTextF(cs []xclause, graphs string, g window, filter string) string {
	q := xselectText(cs, graphs, g)
	if filter == "" {
		return q
	}
	// insert the FILTER clauses before the closing brace of the pattern
	for i := len(q) - 1; i >= 0; i-- {
		if q[i] == '}' {
			return q[:i] + ". " + filter + " " + q[i:]
		}
	}
	return q
}

func xselectText(cs []xclause, graphs string, g window) string {
	bs := xbindingsOf(cs)
	q := "select "
	for i, b := range bs {
		if i > 0 {
			q += ", "
		}
		q += "?" + b
	}
	q += " from " + graphs + " where { "
	for i, c := range cs {
		if i > 0 {
			q += " . "
		}
		q += c.text()
	}
	return q + " }" + g.text() + " ;"
}

var c03XShapes = []xshape{
	// 0: every subject extraction
	{cs: []xclause{{qclause: qclause{s: bS, p: cA, o: bO}, sAs: "x", sID: "y", sType: "z", lo: -1, hi: -1}}, okinds: []int{0, 1}},
	// 1: every predicate extraction; AT does not apply to immutable predicates
	{cs: []xclause{{qclause: qclause{s: bS, p: bP, o: bO}, pAs: "x", pID: "y", pAt: "z", lo: -1, hi: -1}}, okinds: []int{0}, temporal: true},
	// 2: object AS / ID / TYPE on nodes and literals (TYPE does not apply to a literal)
	{cs: []xclause{{qclause: qclause{s: bS, p: cA, o: bO}, oAs: "x", oType: "z", lo: -1, hi: -1}}, okinds: []int{0, 1}},
	// 3: object ID on nodes and predicates
	{cs: []xclause{{qclause: qclause{s: bS, p: cA, o: bO}, oID: "y", lo: -1, hi: -1}}, okinds: []int{0, 3, 4}},
	// 4: object AT applies to temporal predicate objects only
	{cs: []xclause{{qclause: qclause{s: bS, p: cA, o: bO}, oAt: "t", lo: -1, hi: -1}}, okinds: []int{0, 3, 4}},
	// 5: the same alias extracted twice in one clause must agree
	{cs: []xclause{{qclause: qclause{s: bS, p: cA, o: bO}, sID: "x", oID: "x", lo: -1, hi: -1}}, okinds: []int{0}},
	// 6: subject and object ids of one clause against each other through a second clause
	{cs: []xclause{{qclause: qclause{s: bS, p: cA, o: bO}, oAs: "x", lo: -1, hi: -1}, {qclause: qclause{s: pos{bind: "x"}, p: pos{cb: 'b'}, o: bZ}, lo: -1, hi: -1}}, okinds: []int{0}},
	// 7: join on extracted identifiers
	{cs: []xclause{{qclause: qclause{s: bS, p: cA, o: bO}, oID: "i", lo: -1, hi: -1}, {qclause: qclause{s: bZ, p: pos{cb: 'b'}, o: bT}, sID: "i", lo: -1, hi: -1}}, okinds: []int{0}},
	// 8: constant subject and object with aliases
	{cs: []xclause{{qclause: qclause{s: cA, p: cA, o: bO}, sAs: "x", sID: "y", lo: -1, hi: -1}}, okinds: []int{0, 1}},
	{cs: []xclause{{qclause: qclause{s: bS, p: cA, o: cA}, oAs: "x", oID: "y", lo: -1, hi: -1}}, okinds: []int{0, 1}},
	// 10..13: predicate windows (closed intervals, each side open or not)
	{cs: []xclause{{qclause: qclause{s: bS, p: cA, o: bO}, bound: true, lo: 1, hi: 2}}, okinds: []int{0}, temporal: true},
	{cs: []xclause{{qclause: qclause{s: bS, p: cA, o: bO}, bound: true, lo: 2, hi: 3}}, okinds: []int{0}, temporal: true},
	{cs: []xclause{{qclause: qclause{s: bS, p: cA, o: bO}, bound: true, lo: -1, hi: 1}}, okinds: []int{0}, temporal: true},
	{cs: []xclause{{qclause: qclause{s: bS, p: cA, o: bO}, bound: true, lo: 3, hi: -1}}, okinds: []int{0}, temporal: true},
	// 14: anchor binding under global windows
	{cs: []xclause{{qclause: qclause{s: bS, p: cA, o: bO, at: "t"}, lo: -1, hi: -1}}, okinds: []int{0}, temporal: true,
		global: []window{{-1, 1}, {-1, 0}, {3, -1}, {4, -1}, {1, 2}, {2, 3}, {2, 2}}},
	// 15: predicate binding under global windows (immutable triples are kept)
	{cs: []xclause{{qclause: qclause{s: bS, p: bP, o: bO}, lo: -1, hi: -1}}, okinds: []int{0}, temporal: true,
		global: []window{{-1, 1}, {3, -1}, {2, 3}, {0, 0}}},
	// 16: a window narrower than the global one and vice versa
	{cs: []xclause{{qclause: qclause{s: bS, p: cA, o: bO}, bound: true, lo: 0, hi: 2}}, okinds: []int{0}, temporal: true,
		global: []window{{1, 4}, {2, 4}, {-1, 0}}},
	// 17: join over two FROM graphs
	{cs: []xclause{xq(qclause{s: bS, p: cA, o: bO}), xq(qclause{s: bO, p: cA, o: bZ})}, okinds: []int{0}, graphs: 2},
	// 18: single clause over two FROM graphs
	{cs: []xclause{xq(qclause{s: bS, p: bP, o: bO})}, okinds: []int{0, 1}, graphs: 2},
	// 19: time join: the anchor of one clause is the anchor of the other
	{cs: []xclause{{qclause: qclause{s: bS, p: cA, o: bO, at: "t"}, lo: -1, hi: -1}, {qclause: qclause{s: bO, p: pos{cb: 'b'}, o: bZ, at: "t"}, lo: -1, hi: -1}}, okinds: []int{0}, temporal: true},
	// 20: AT alias joined with an anchor binding
	{cs: []xclause{{qclause: qclause{s: bS, p: bP, o: bO}, pAt: "t", lo: -1, hi: -1}, {qclause: qclause{s: bS, p: pos{cb: 'b'}, o: bZ, at: "t"}, lo: -1, hi: -1}}, okinds: []int{0}, temporal: true},
	// 21: object ID does not apply to a literal: the clause does not match that triple
	{cs: []xclause{{qclause: qclause{s: bS, p: cA, o: bO}, oID: "y", lo: -1, hi: -1}}, okinds: []int{0, 1}},
	// 22: object TYPE / AT on predicate objects
	{cs: []xclause{{qclause: qclause{s: bS, p: cA, o: bO}, oType: "y", lo: -1, hi: -1}}, okinds: []int{0, 3}},
	// 23: constant predicate object, immutable and anchored
	{cs: []xclause{{qclause: qclause{s: bS, p: cA, o: cA, ok: 3}, lo: -1, hi: -1}}, okinds: []int{0, 3, 4}},
	{cs: []xclause{{qclause: qclause{s: bS, p: cA, o: cA, ok: 4}, okc: 1, lo: -1, hi: -1}}, okinds: []int{3, 4}},
	// 25: int64 constant object
	{cs: []xclause{{qclause: qclause{s: bS, p: bP, o: cA, ok: 2}, lo: -1, hi: -1}}, okinds: []int{1, 2}},
	// 26: a fully specified clause (existence test) with aliases, over one and two FROM graphs
	{cs: []xclause{{qclause: qclause{s: cA, p: cA, o: cA}, sAs: "x", oAs: "y", lo: -1, hi: -1}}, okinds: []int{0, 1}},
	{cs: []xclause{{qclause: qclause{s: cA, p: cA, o: cA}, sAs: "x", oAs: "y", lo: -1, hi: -1}}, okinds: []int{0}, graphs: 2},
	// 28: an existence test guarding a further clause, two FROM graphs
	{cs: []xclause{{qclause: qclause{s: cA, p: cA, o: cA}, sAs: "x", lo: -1, hi: -1}, {qclause: qclause{s: pos{bind: "x"}, p: pos{cb: 'b'}, o: bZ}, lo: -1, hi: -1}}, okinds: []int{0}, graphs: 2},
	// 29: a predicate in object position with an anchor binding
	{cs: []xclause{{qclause: qclause{s: bS, p: cA, o: cA}, oAtBind: "t", lo: -1, hi: -1}}, okinds: []int{0, 3, 4}},
	// 30: ... whose anchor is bound by an earlier clause (time join between a predicate and an object)
	{cs: []xclause{{qclause: qclause{s: bS, p: cA, o: bO, at: "t"}, lo: -1, hi: -1}, {qclause: qclause{s: bZ, p: pos{cb: 'b'}, o: cA}, oAtBind: "t", lo: -1, hi: -1}}, okinds: []int{0, 4}, temporal: true},
	// 31: ... and the other way round
	{cs: []xclause{{qclause: qclause{s: bZ, p: pos{cb: 'b'}, o: cA}, oAtBind: "t", lo: -1, hi: -1}, {qclause: qclause{s: bS, p: cA, o: bO, at: "t"}, lo: -1, hi: -1}}, okinds: []int{0, 4}, temporal: true},
	// an anchored constant predicate under global windows that contain or exclude its instant
	{cs: []xclause{{qclause: qclause{s: bS, p: cA, o: bO, pk: 1, pa: 0}, lo: -1, hi: -1}}, okinds: []int{0}, temporal: true,
		global: []window{{-1, 0}, {-1, 1}, {2, -1}, {1, 1}, {0, 4}}},
	// a predicate window in object position: temporal predicate objects inside the window only
	{cs: []xclause{{qclause: qclause{s: bS, p: cA, o: cA}, oBound: true, olo: 1, ohi: 2, lo: -1, hi: -1}}, okinds: []int{0, 3, 4}},
	{cs: []xclause{{qclause: qclause{s: bS, p: cA, o: cA}, oBound: true, olo: -1, ohi: -1, lo: -1, hi: -1}}, okinds: []int{3, 4}},
	{cs: []xclause{{qclause: qclause{s: bS, p: cA, o: cA}, oBound: true, olo: 3, ohi: -1, lo: -1, hi: -1}}, okinds: []int{3, 4}},
	// a predicate window in the first clause does not narrow the lookups of the second
	{cs: []xclause{{qclause: qclause{s: bS, p: cA, o: bO}, bound: true, lo: 0, hi: 2}, {qclause: qclause{s: bS, p: pos{cb: 'b'}, o: bZ, at: "t"}, lo: -1, hi: -1}}, okinds: []int{0}, temporal: true},
	{cs: []xclause{{qclause: qclause{s: bS, p: cA, o: bO}, bound: true, lo: 2, hi: 4}, {qclause: qclause{s: bZ, p: bP, o: bO}, lo: -1, hi: -1}}, okinds: []int{0}, temporal: true},
	// an AT alias on the object joined with the anchor binding of another clause, both orders
	{cs: []xclause{{qclause: qclause{s: bS, p: bP, o: bO}, oAt: "t", lo: -1, hi: -1}, {qclause: qclause{s: bZ, p: pos{cb: 'b'}, o: pos{bind: "w"}, at: "t"}, lo: -1, hi: -1}}, okinds: []int{0, 4}, temporal: true},
	{cs: []xclause{{qclause: qclause{s: bZ, p: pos{cb: 'b'}, o: pos{bind: "w"}, at: "t"}, lo: -1, hi: -1}, {qclause: qclause{s: bS, p: cA, o: bO}, oAt: "t", lo: -1, hi: -1}}, okinds: []int{0, 4}, temporal: true},
	// an extraction keyword of one clause has no effect on the plain binding in the
	// same position of the next clause (the hooks keep the last keyword per position)
	{cs: []xclause{{qclause: qclause{s: bS, p: cA, o: bO}, sType: "y", lo: -1, hi: -1}, xq(qclause{s: bZ, p: pos{cb: 'b'}, o: bO})}, okinds: []int{0}},
	{cs: []xclause{{qclause: qclause{s: bS, p: cA, o: bO}, sID: "y", lo: -1, hi: -1}, xq(qclause{s: bO, p: pos{cb: 'b'}, o: bZ})}, okinds: []int{0}},
	{cs: []xclause{{qclause: qclause{s: bS, p: bP, o: bO}, pID: "i", lo: -1, hi: -1}, xq(qclause{s: bO, p: pos{bind: "q"}, o: bZ})}, okinds: []int{0}, temporal: true},
	{cs: []xclause{{qclause: qclause{s: bS, p: bP, o: bO}, pAt: "t", lo: -1, hi: -1}, xq(qclause{s: bO, p: pos{bind: "q"}, o: bZ})}, okinds: []int{0}, temporal: true},
	{cs: []xclause{{qclause: qclause{s: bS, p: cA, o: bO}, oType: "y", lo: -1, hi: -1}, xq(qclause{s: bS, p: pos{cb: 'b'}, o: bZ})}, okinds: []int{0}},
	{cs: []xclause{{qclause: qclause{s: bS, p: cA, o: bO}, oID: "y", lo: -1, hi: -1}, xq(qclause{s: bO, p: pos{cb: 'b'}, o: bZ})}, okinds: []int{0}},
	// FILTER clauses (isTemporal / isImmutable on a predicate binding and on a
	// predicate-valued object binding; latest on the predicate binding of an open clause)
	{cs: []xclause{xq(qclause{s: bS, p: bP, o: bO})}, okinds: []int{0}, temporal: true, filter: "filter isTemporal(?p)",
		keep: func(e env, _ []*dspec) bool { return e["p"].pk == 1 }},
	{cs: []xclause{xq(qclause{s: bS, p: bP, o: bO})}, okinds: []int{0, 1}, temporal: true, filter: "filter isImmutable(?p)",
		keep: func(e env, _ []*dspec) bool { return e["p"].pk == 0 }},
	{cs: []xclause{xq(qclause{s: bS, p: cA, o: bO})}, okinds: []int{3, 4}, filter: "filter isTemporal(?o)",
		keep: func(e env, _ []*dspec) bool { return e["o"].kind == 1 && e["o"].pk == 1 }},
	{cs: []xclause{xq(qclause{s: bS, p: bP, o: bO})}, okinds: []int{0}, temporal: true, filter: "filter latest(?p)",
		keep: func(e env, data []*dspec) bool {
			if e["p"].pk != 1 {
				return false
			}
			r := true
			for _, d := range data {
				if d.pk == 1 && anchors[d.pa].After(anchors[e["p"].pa]) {
					r = verif.And(r, d.pb != e["p"].b)
				}
			}
			return r
		}},
	// 36: a FILTER on the first clause does not leak into the lookups of the second
	{cs: []xclause{xq(qclause{s: bS, p: bP, o: bO}), xq(qclause{s: bO, p: pos{bind: "q"}, o: bZ})}, okinds: []int{0}, temporal: true, filter: "filter isTemporal(?p)",
		keep: func(e env, _ []*dspec) bool { return e["p"].pk == 1 }},
}

// newStoreGraphs creates a store with the named graphs and distributes the
// triples over them as told by where[i].
func newStoreGraphs(names []string, ts []*triple.Triple, where []int) storage.Store {
	st := memory.NewStore()
	gs := make([]storage.Graph, len(names))
	for i, n := range names {
		g, err := st.NewGraph(ctx, n)
		if err != nil {
			panic(err)
		}
		gs[i] = g
	}
	for i, t := range ts {
		if err := gs[where[i]].AddTriples(ctx, []*triple.Triple{t}); err != nil {
			panic(err)
		}
	}
	return st
}

// C03 (extended): extraction keywords, predicate windows, global time bounds
// and several FROM graphs, against the brute-force solutions of the pattern.
func HarnessC03Extract() {
	si := verif.Param("SHAPE", -1)
	if si < 0 {
		si = verif.Choice("shape", len(c03XShapes))
	}
	sh := c03XShapes[si]
	K := 1 + verif.Choice("k", verif.Param("K", 2))
	data := make([]*dspec, K)
	for i := range data {
		data[i] = symDataX("d", sh.temporal, sh.okinds, nil)
	}
	g := noWindow
	if len(sh.global) > 0 {
		g = sh.global[verif.Choice("global", len(sh.global))]
	}
	var st storage.Store
	graphs := "?g"
	if sh.graphs > 1 {
		where := make([]int, K)
		for i := range where {
			where[i] = verif.Choice("graph", sh.graphs)
			// the multiplicity of a triple stored in two listed graphs is left open
			for j := 0; j < i; j++ {
				if where[j] != where[i] {
					verif.Assume(!data[i].eq(data[j]))
				}
			}
		}
		st = newStoreGraphs([]string{"?g", "?h"}, dtriples(data), where)
		graphs = "?g, ?h"
	} else {
		st, _ = newStoreWith("?g", dtriples(data))
	}
	q := xselectTextF(sh.cs, graphs, g, sh.filter)
	var tbl *table.Table
	var err error
	if !noPanic("C03/extract/no-panic", func() { tbl, err = runBQL(st, q, 0, 10) }) {
		return
	}
	verif.Reach("executed")
	verif.Class(c03XClass(sh, data))
	if err != nil {
		verif.Observe("query", q)
		verif.Observe("error", err.Error())
	}
	verif.Assert(err == nil, "C03/extract/query-succeeds")
	if err != nil {
		return
	}
	if verif.Param("SHOW", 0) == 1 {
		verif.Observe("query", q)
		for _, d := range data {
			verif.Observe("triple", d.t.String())
		}
		verif.Observe("table", tbl.String())
	}
	sols := xsolutions(sh.cs, data, g)
	if sh.keep != nil {
		for i := range sols {
			sols[i].cond = verif.And(sols[i].cond, sh.keep(sols[i].e, data))
		}
	}
	checkTableIsSolutions(sols, xbindingsOf(sh.cs), tbl, "C03/extract")
}

// c03XClass names the witness class of a recorded defect the shape and data
// fall into, or "".
func c03XClass(sh xshape, data []*dspec) string {
	// a later clause re-uses, as an ID/TYPE/AT extraction alias, a name an earlier
	// clause has bound: the planner cannot specialise the clause by such a value
	// and merges the rows without comparing it
	bound := map[string]bool{}
	for i, c := range sh.cs {
		if i > 0 {
			for _, a := range []string{c.sID, c.sType, c.pID, c.pAt, c.oID, c.oType, c.oAt} {
				if a != "" && bound[a] {
					return "binding-joined-only-through-an-extraction-alias"
				}
			}
		}
		for _, b := range xbindingsOf([]xclause{c}) {
			bound[b] = true
		}
	}
	bound = map[string]bool{}
	for _, c := range sh.cs {
		// one alias extracted from the subject and from a node object of the same clause
		if c.sID != "" && c.sID == c.oID {
			return "id-alias-of-subject-repeated-on-a-node-object"
		}
		// the driver's missing kind comparison (C02): a constant pattern predicate
		// (also one completed with an anchor bound by an earlier clause) against a
		// stored predicate with the same identifier but the other kind
		if c.p.bind == "" && (c.at == "" || bound[c.at]) {
			for _, d := range data {
				patTemporal := c.pk == 1 || c.bound || c.at != ""
				if patTemporal != (d.pk == 1) && d.pb == c.p.cb {
					return "pattern-predicate-and-stored-predicate-differ-in-kind-only"
				}
			}
		}
		for _, b := range xbindingsOf([]xclause{c}) {
			bound[b] = true
		}
	}
	return ""
}
