package zzbql

import (
	"time"
	"context"
	"errors"

	verif "github.com/google/badwolf/internal/zzverif"
	"github.com/google/badwolf/bql/grammar"
	"github.com/google/badwolf/bql/planner"
	"github.com/google/badwolf/bql/semantic"
	"github.com/google/badwolf/bql/table"
	"github.com/google/badwolf/storage"
	"github.com/google/badwolf/triple"
	"github.com/google/badwolf/triple/node"
	"github.com/google/badwolf/triple/predicate"
)

var errInjected = errors.New("injected driver failure")

// faultCtl decides, at every driver call, whether it fails (the fault schedule
// is a sequence of solver-controlled choices), at most max times.
type faultCtl struct {
	max, fired int
	calls      int
	where      string
}

// next: 0 = no fault, 1 = fail before delivering anything, 2 = fail after one element.
func (f *faultCtl) next(what string, modes int) int {
	f.calls++
	if f.fired >= f.max {
		return 0
	}
	// the fault decision is a solver variable (one byte per driver call)
	b := verif.Byte("fault")
	verif.Assume(int(b) <= modes)
	m := 0
	if b == 1 {
		m = 1
	} else if b == 2 {
		m = 2
	}
	if m != 0 {
		f.fired++
		f.where = what
	}
	return m
}

type faultStore struct {
	inner storage.Store
	f     *faultCtl
}

func (s *faultStore) Name(ctx context.Context) string    { return s.inner.Name(ctx) }
func (s *faultStore) Version(ctx context.Context) string { return s.inner.Version(ctx) }
func (s *faultStore) NewGraph(ctx context.Context, id string) (storage.Graph, error) {
	if s.f.next("NewGraph", 1) != 0 {
		return nil, errInjected
	}
	g, err := s.inner.NewGraph(ctx, id)
	if err != nil {
		return nil, err
	}
	return &faultGraph{g, s.f}, nil
}
func (s *faultStore) Graph(ctx context.Context, id string) (storage.Graph, error) {
	if s.f.next("Graph", 1) != 0 {
		return nil, errInjected
	}
	g, err := s.inner.Graph(ctx, id)
	if err != nil {
		return nil, err
	}
	return &faultGraph{g, s.f}, nil
}
func (s *faultStore) DeleteGraph(ctx context.Context, id string) error {
	if s.f.next("DeleteGraph", 1) != 0 {
		return errInjected
	}
	return s.inner.DeleteGraph(ctx, id)
}
func (s *faultStore) GraphNames(ctx context.Context, names chan<- string) error {
	switch s.f.next("GraphNames", 2) {
	case 1:
		close(names)
		return errInjected
	case 2:
		tmp := make(chan string, 16)
		if err := s.inner.GraphNames(ctx, tmp); err != nil {
			close(names)
			return err
		}
		for n := range tmp {
			names <- n
			break
		}
		close(names)
		return errInjected
	}
	return s.inner.GraphNames(ctx, names)
}

type faultGraph struct {
	inner storage.Graph
	f     *faultCtl
}

func (g *faultGraph) ID(ctx context.Context) string { return g.inner.ID(ctx) }
func (g *faultGraph) AddTriples(ctx context.Context, ts []*triple.Triple) error {
	if g.f.next("AddTriples", 1) != 0 {
		return errInjected
	}
	return g.inner.AddTriples(ctx, ts)
}
func (g *faultGraph) RemoveTriples(ctx context.Context, ts []*triple.Triple) error {
	if g.f.next("RemoveTriples", 1) != 0 {
		return errInjected
	}
	return g.inner.RemoveTriples(ctx, ts)
}
func (g *faultGraph) Exist(ctx context.Context, t *triple.Triple) (bool, error) {
	if g.f.next("Exist", 1) != 0 {
		return false, errInjected
	}
	return g.inner.Exist(ctx, t)
}

// deliver forwards a lookup: mode 0 untouched; 1 error before anything; 2 error
// after the first element.  The channel contract (close before return) is kept.
func deliver[T any](mode int, out chan<- T, run func(chan<- T) error) error {
	switch mode {
	case 0:
		return run(out)
	case 1:
		close(out)
		lateReturn()
		return errInjected
	}
	tmp := make(chan T, 64)
	err := run(tmp)
	n := 0
	for v := range tmp {
		if n == 0 {
			out <- v
		}
		n++
	}
	close(out)
	lateReturn()
	if err != nil {
		return err
	}
	return errInjected
}

// lateReturn: a driver may take a moment between closing its channel and
// returning its error.  Under the engine that moment is any point the scheduler
// chooses (schedule mode); natively - where this code only replays a
// counterexample - it is made long enough to be hit.
func lateReturn() {
	if !verif.Symbolic() {
		time.Sleep(2 * time.Millisecond)
	}
}

func (g *faultGraph) Objects(ctx context.Context, s *node.Node, p *predicate.Predicate, lo *storage.LookupOptions, out chan<- *triple.Object) error {
	return deliver(g.f.next("Objects", 2), out, func(c chan<- *triple.Object) error { return g.inner.Objects(ctx, s, p, lo, c) })
}
func (g *faultGraph) Subjects(ctx context.Context, p *predicate.Predicate, o *triple.Object, lo *storage.LookupOptions, out chan<- *node.Node) error {
	return deliver(g.f.next("Subjects", 2), out, func(c chan<- *node.Node) error { return g.inner.Subjects(ctx, p, o, lo, c) })
}
func (g *faultGraph) PredicatesForSubject(ctx context.Context, s *node.Node, lo *storage.LookupOptions, out chan<- *predicate.Predicate) error {
	return deliver(g.f.next("PredicatesForSubject", 2), out, func(c chan<- *predicate.Predicate) error { return g.inner.PredicatesForSubject(ctx, s, lo, c) })
}
func (g *faultGraph) PredicatesForObject(ctx context.Context, o *triple.Object, lo *storage.LookupOptions, out chan<- *predicate.Predicate) error {
	return deliver(g.f.next("PredicatesForObject", 2), out, func(c chan<- *predicate.Predicate) error { return g.inner.PredicatesForObject(ctx, o, lo, c) })
}
func (g *faultGraph) PredicatesForSubjectAndObject(ctx context.Context, s *node.Node, o *triple.Object, lo *storage.LookupOptions, out chan<- *predicate.Predicate) error {
	return deliver(g.f.next("PredicatesForSubjectAndObject", 2), out, func(c chan<- *predicate.Predicate) error {
		return g.inner.PredicatesForSubjectAndObject(ctx, s, o, lo, c)
	})
}
func (g *faultGraph) TriplesForSubject(ctx context.Context, s *node.Node, lo *storage.LookupOptions, out chan<- *triple.Triple) error {
	return deliver(g.f.next("TriplesForSubject", 2), out, func(c chan<- *triple.Triple) error { return g.inner.TriplesForSubject(ctx, s, lo, c) })
}
func (g *faultGraph) TriplesForPredicate(ctx context.Context, p *predicate.Predicate, lo *storage.LookupOptions, out chan<- *triple.Triple) error {
	return deliver(g.f.next("TriplesForPredicate", 2), out, func(c chan<- *triple.Triple) error { return g.inner.TriplesForPredicate(ctx, p, lo, c) })
}
func (g *faultGraph) TriplesForObject(ctx context.Context, o *triple.Object, lo *storage.LookupOptions, out chan<- *triple.Triple) error {
	return deliver(g.f.next("TriplesForObject", 2), out, func(c chan<- *triple.Triple) error { return g.inner.TriplesForObject(ctx, o, lo, c) })
}
func (g *faultGraph) TriplesForSubjectAndPredicate(ctx context.Context, s *node.Node, p *predicate.Predicate, lo *storage.LookupOptions, out chan<- *triple.Triple) error {
	return deliver(g.f.next("TriplesForSubjectAndPredicate", 2), out, func(c chan<- *triple.Triple) error {
		return g.inner.TriplesForSubjectAndPredicate(ctx, s, p, lo, c)
	})
}
func (g *faultGraph) TriplesForPredicateAndObject(ctx context.Context, p *predicate.Predicate, o *triple.Object, lo *storage.LookupOptions, out chan<- *triple.Triple) error {
	return deliver(g.f.next("TriplesForPredicateAndObject", 2), out, func(c chan<- *triple.Triple) error {
		return g.inner.TriplesForPredicateAndObject(ctx, p, o, lo, c)
	})
}
func (g *faultGraph) Triples(ctx context.Context, lo *storage.LookupOptions, out chan<- *triple.Triple) error {
	return deliver(g.f.next("Triples", 2), out, func(c chan<- *triple.Triple) error { return g.inner.Triples(ctx, lo, c) })
}

var c20Corpus = []string{
	`select ?s, ?o from ?g where { ?s "p"@[] ?o } ;`,
	`select ?s, ?p, ?o from ?g where { ?s ?p ?o } ;`,
	`select ?o from ?g where { /u<a> "p"@[] ?o } ;`,
	`select ?s from ?g where { ?s "p"@[] /u<b> } ;`,
	`select ?p from ?g where { /u<a> ?p /u<b> } ;`,
	`select ?p, ?o from ?g where { /u<a> ?p ?o } ;`,
	`select ?s, ?p from ?g where { ?s ?p /u<b> } ;`,
	`select ?s, ?o, ?z from ?g where { ?s "p"@[] ?o . ?o "p"@[] ?z } ;`,
	`select ?s, ?o from ?g, ?h where { ?s "p"@[] ?o } ;`,
	`select ?c from ?g where { /u<a> "p"@[] ?c . ?c "p"@[] "x"^^type:text } ;`,
	`select ?s, ?o, ?z from ?g where { ?s "p"@[] ?o . optional { ?o "p"@[] ?z } } ;`,
	`select ?x from ?g, ?h where { /u<a> as ?x "p"@[] /u<b> } ;`,
	`select ?s, ?p, ?o from ?g where { ?s ?p ?o } limit "1"^^type:int64 ;`,
	`select ?s, ?o from ?g where { ?s "p"@[] ?o } order by ?s limit "1"^^type:int64 ;`,
	`select ?x, ?o from ?g where { /u<a> as ?x "p"@[] /u<b> . ?x "q"@[] ?o } ;`,
	`insert data into ?g { /u<x> "p"@[] /u<y> } ;`,
	`insert data into ?g, ?h { /u<x> "p"@[] /u<y> } ;`,
	`delete data from ?g { /u<a> "p"@[] /u<b> } ;`,
	`construct { ?s "r"@[] ?o } into ?h from ?g where { ?s "p"@[] ?o } ;`,
	`deconstruct { ?s "p"@[] ?o } in ?h from ?g where { ?s "p"@[] ?o } ;`,
	`show graphs ;`,
	`create graph ?n ;`,
	`drop graph ?h ;`,
}

// C20: a statement executed against a driver in which at most FAULTS calls fail
// (which call, and whether before or after delivering, is the symbolic fault
// schedule): if any fault fired, Execute reports an error; it always returns;
// no goroutine is left.
func HarnessC20Faults() {
	qi := verif.Param("STATEMENT", -1)
	if qi < 0 {
		qi = verif.Choice("statement", len(c20Corpus))
	}
	inner := c08Store(true)
	if _, err := inner.NewGraph(ctx, "?h"); err != nil {
		panic(err)
	}
	f := &faultCtl{max: verif.Param("FAULTS", 1)}
	st := &faultStore{inner, f}
	before := verif.LiveGoroutines()
	var tbl *table.Table
	var err error
	if !noPanic("C20/no-panic", func() {
		p, perr := grammar.NewParser(grammar.SemanticBQL())
		if perr != nil {
			panic(perr)
		}
		stm := &semantic.Statement{}
		if perr := p.Parse(grammar.NewLLk(c20Corpus[qi], 1), stm); perr != nil {
			panic(perr)
		}
		pln, nerr := planner.New(ctx, st, stm, 0, verif.Param("BULK", 1), nil)
		if nerr != nil {
			err = nerr
			return
		}
		tbl, err = pln.Execute(ctx)
	}) {
		return
	}
	verif.Reach("returned")
	after := verif.LiveGoroutines()
	if f.fired > 0 {
		verif.Reach("fault-fired")
		verif.Class("fault-in-" + f.where + "/statement-" + c20Kind(qi))
		verif.Assert(err != nil, "C20/fault-surfaces-as-error")
		verif.Class("")
	} else {
		verif.Assert(err == nil && tbl != nil, "C20/no-fault-no-error")
	}
	verif.Assert(after == before, "C20/no-goroutine-left")
}

func c20Kind(qi int) string {
	q := c20Corpus[qi]
	for _, k := range []string{"select", "insert", "delete", "construct", "deconstruct", "show", "create", "drop"} {
		if len(q) >= len(k) && q[:len(k)] == k {
			return k
		}
	}
	return "other"
}
