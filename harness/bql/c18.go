package zzbql

import (
	"fmt"
	"strconv"
	"strings"

	verif "github.com/google/badwolf/internal/zzverif"
	"github.com/google/badwolf/bql/grammar"
	"github.com/google/badwolf/bql/lexer"
	"github.com/google/badwolf/bql/semantic"
)

const numTokenTypes = int(lexer.ItemFilterFunction) + 1

// symTokens returns n tokens whose types are solver variables (any token type
// except Error and EOF); the text of token i is its index, so the number of
// tokens consumed can be read off LLk.Current().
func symTokens(n int) []lexer.Token {
	toks := make([]lexer.Token, n)
	for i := range toks {
		b := verif.Byte("tt")
		verif.Assume(verif.And(b >= byte(lexer.ItemQuery), int(b) < numTokenTypes))
		toks[i] = lexer.Token{Type: lexer.TokenType(b), Text: fmt.Sprint(i)}
	}
	return toks
}

// recognise is the reference: predictive descent over the same Grammar value;
// an optional (empty) alternative is taken only when no other alternative
// starts with the next token.  Returns tokens consumed and acceptance.
func recognise(g *grammar.Grammar, s semantic.Symbol, toks []lexer.Token, pos int) (int, bool) {
	for _, cl := range (*g)[s] {
		if len(cl.Elements) == 0 {
			return pos, true
		}
		first := cl.Elements[0]
		if isSym(first) {
			return pos, false
		}
		var cur lexer.TokenType = lexer.ItemEOF
		if pos < len(toks) {
			cur = toks[pos].Type
		}
		if cur != first.Token() {
			continue
		}
		for _, e := range cl.Elements {
			if isSym(e) {
				np, ok := recognise(g, e.Symbol(), toks, pos)
				if !ok {
					return np, false
				}
				pos = np
				continue
			}
			cur = lexer.ItemEOF
			if pos < len(toks) {
				cur = toks[pos].Type
			}
			if cur != e.Token() {
				return pos, false
			}
			pos++
		}
		return pos, true
	}
	return pos, false
}

func consumedOf(l *grammar.LLk, n int) int {
	cur := l.Current()
	if cur.Type == lexer.ItemEOF && cur.Text == "" {
		return n
	}
	k, _ := strconv.Atoi(cur.Text)
	return k
}

// C18 (a): for a symbolic rule R of BQL() re-rooted as START, every token-type
// sequence of length L: the real parser and the reference recogniser agree on
// accept/reject and on how many tokens were consumed; for the real START,
// accepting means the whole input was consumed.
func HarnessC18Rule() {
	g := grammar.BQL()
	rs := rules(g)
	var root semantic.Symbol = "START"
	if verif.Param("ALLRULES", 1) == 1 {
		r := verif.Int("rule")
		verif.Assume(verif.And(r >= 0, r < len(rs)))
		root = rs[r]
	}
	L := verif.Param("L", 4)
	n := verif.Choice("len", L+1)
	toks := symTokens(n)
	pg := grammar.BQL()
	(*pg)["START"] = (*pg)[root]
	p, err := grammar.NewParser(pg)
	verif.Assume(err == nil)
	llk := grammar.NewLLkFromTokens(toks, 1)
	var perr error
	if !noPanic("C18/rule/no-panic", func() { perr = p.Parse(llk, &semantic.Statement{}) }) {
		return
	}
	verif.Reach("parsed")
	refPos, refOK := recognise(g, root, toks, 0)
	if root == "START" {
		// Parse additionally insists that START consumed something; START has no empty alternative
	}
	verif.Assert((perr == nil) == refOK, "C18/rule/accepts-iff-derivable-prefix")
	if perr == nil && refOK {
		verif.Assert(consumedOf(llk, n) == refPos, "C18/rule/consumes-exactly-the-derivation")
		if root == "START" {
			if refPos < n {
				verif.Class("tokens-after-the-statement-are-ignored")
			}
			verif.Assert(refPos == n, "C18/start/accepts-only-whole-input")
		}
	}
}

// pinned renders the symbolic tokens as text, concretizing each type (types the
// parser has inspected are already pinned to one value by the path condition).
func pinnedText(toks []lexer.Token) string {
	tt := make([]lexer.TokenType, len(toks))
	for i, t := range toks {
		k := 0
		for c := int(lexer.ItemQuery); c < numTokenTypes; c++ {
			if t.Type == lexer.TokenType(c) {
				k = c
				break
			}
		}
		tt[i] = lexer.TokenType(k)
	}
	return render(tt)
}

func parseText(g *grammar.Grammar, text string) (*semantic.Statement, error) {
	p, err := grammar.NewParser(g)
	if err != nil {
		return nil, err
	}
	st := &semantic.Statement{}
	return st, p.Parse(grammar.NewLLk(text, 1), st)
}

// C18 (b): the semantic layer never accepts more than the plain grammar: every
// token-type sequence of length L that the plain parser decides, rendered to
// text and run through the real lexer and both parsers.
func HarnessC18Semantic() {
	L := verif.Param("L", 5)
	n := verif.Choice("len", L+1)
	toks := symTokens(n)
	p, err := grammar.NewParser(grammar.BQL())
	verif.Assume(err == nil)
	llk := grammar.NewLLkFromTokens(toks, 1)
	symErr := p.Parse(llk, &semantic.Statement{})
	text := pinnedText(inspected(toks, llk, symErr))
	var plainErr, semErr error
	if !noPanic("C18/semantic/no-panic", func() {
		_, plainErr = parseText(grammar.BQL(), text)
		_, semErr = parseText(grammar.SemanticBQL(), text)
	}) {
		return
	}
	verif.Reach("parsed")
	_ = symErr
	verif.Assert(!(semErr == nil && plainErr != nil), "C18/semantic/accepts-no-more-than-plain")
}

// fingerprint renders everything a statement exposes through its accessors.
func fingerprint(st *semantic.Statement) string {
	s := fmt.Sprintf("type=%v graphs=%v in=%v out=%v", st.Type(), st.GraphNames(), st.InputGraphNames(), st.OutputGraphNames())
	for _, t := range st.Data() {
		s += " data=" + t.String()
	}
	for _, c := range st.GraphPatternClauses() {
		s += " clause=" + c.String()
	}
	for _, c := range st.FilterClauses() {
		s += " filter=" + c.String()
	}
	for _, c := range st.ConstructClauses() {
		s += " construct=" + c.String()
	}
	for _, p := range st.Projections() {
		s += " proj=" + p.String()
	}
	s += fmt.Sprintf(" groupby=%v orderby=%v having=%v limit=%v/%v", st.GroupByBindings(), st.OrderByConfig().String(), st.HasHavingClause(), st.IsLimitSet(), st.Limit())
	for _, e := range st.HavingExpression() {
		s += " h=" + e.String()
	}
	lo := st.GlobalLookupOptions()
	s += " lookup=" + lo.String()
	return s
}

var c18Corpus = []string{
	`select ?s, ?o from ?g where { ?s "p"@[] ?o } ;`,
	`select ?s, count(?o) as ?n from ?g where { ?s "p"@[] ?o } group by ?s order by ?n desc having ?n > "1"^^type:int64 before 2006-01-02T15:04:05Z limit "3"^^type:int64 ;`,
	`insert data into ?g { /u<a> "p"@[] /u<b> . /u<b> "q"@[2006-01-02T15:04:05Z] "1"^^type:int64 } ;`,
	`delete data from ?g { /u<a> "p"@[] /u<b> } ;`,
	`create graph ?g, ?h ;`,
	`drop graph ?g ;`,
	`construct { ?s "r"@[] ?o } into ?h from ?g where { ?s "p"@[] ?o } ;`,
	`deconstruct { ?s "r"@[] ?o } in ?h from ?g where { ?s "p"@[] ?o } ;`,
	`show graphs ;`,
	`select ?s, ?o from ?g where { ?s "p"@[] ?o } order by ?s asc, ?o desc ;`,
	`select ?o, ?s from ?g where { ?s "p"@[] ?o } order by ?o asc, ?s desc between 2006-01-02T15:04:05Z, 2007-01-02T15:04:05Z ;`,
	`select ?s, ?o from ?g where { ?s "p"@[] ?o } order by ?o, ?s after 2006-01-02T15:04:05Z ;`,
	`select ?s from ?g where { ?s "p"@[,] as ?x ?o } ;`,
	`select ?s, ?p from ?g where { ?s ?p /u<a> } having (?s = /u<a>) or (?s = /u<b>) ;`,
	// rejected by the hooks (the first projection is neither grouped nor aggregated): stays rejected
	`select ?s, ?o from ?g where { ?s "p"@[] ?o } group by ?o ;`,
}

// C18 (c'): no state between statements: every ordered pair of corpus
// statements through one parser.
func HarnessC18NoStatePairs() {
	i := verif.Choice("first", len(c18Corpus))
	j := verif.Choice("second", len(c18Corpus))
	shared, err := grammar.NewParser(grammar.SemanticBQL())
	verif.Assume(err == nil)
	var st2 *semantic.Statement
	var err1, err2 error
	if !noPanic("C18/nostate/no-panic", func() {
		err1 = shared.Parse(grammar.NewLLk(c18Corpus[i], 1), &semantic.Statement{})
		st2 = &semantic.Statement{}
		err2 = shared.Parse(grammar.NewLLk(c18Corpus[j], 1), st2)
	}) {
		return
	}
	fresh, ferr := parseText(grammar.SemanticBQL(), c18Corpus[j])
	verif.Reach("parsed")
	hasBound := func(q string) bool {
		return strings.Contains(q, " before ") || strings.Contains(q, " after ") || strings.Contains(q, " between ")
	}
	text1 := c18Corpus[i]
	switch {
	case err1 != nil:
		verif.Class(rejectedClass(text1))
	case strings.Contains(c18Corpus[i], " between ") && hasBound(c18Corpus[j]):
		// known: collectGlobalBounds keeps its last token after a BETWEEN bound
		verif.Class("global-time-bound-after-an-accepted-BETWEEN")
	default:
		verif.Class("after-an-accepted-statement")
	}
	verif.Assert((err2 == nil) == (ferr == nil), "C18/nostate/same-verdict")
	if err2 == nil && ferr == nil {
		verif.Assert(fingerprint(st2) == fingerprint(fresh), "C18/nostate/same-meaning")
	}
	verif.Class("")
}

// C18 (c): no state between statements: a parser built once from
// SemanticBQL() first parses statement 1 — a symbolic token sequence, accepted
// or rejected at any point — and then a corpus statement; what it extracts
// from the second must equal what a fresh parser extracts.
func HarnessC18NoState() {
	L := verif.Param("L", 4)
	n := verif.Choice("len", L+1)
	toks := symTokens(n)
	plain, err := grammar.NewParser(grammar.BQL())
	verif.Assume(err == nil)
	llk := grammar.NewLLkFromTokens(toks, 1)
	perr := plain.Parse(llk, &semantic.Statement{})
	text1 := pinnedText(inspected(toks, llk, perr))
	if verif.Choice("trailing", 2) == 1 {
		// also the prefix of a longer statement: a valid INSERT cut before its end
		text1 = `insert data into ?g { /u<a> "p"@[] /u<b> . ` + text1
	}
	var text2 string
	if i := verif.Param("SECOND", -1); i >= 0 {
		text2 = c18Corpus[i]
	} else {
		text2 = c18Corpus[verif.Choice("second", len(c18Corpus))]
	}
	shared, err := grammar.NewParser(grammar.SemanticBQL())
	verif.Assume(err == nil)
	var st2 *semantic.Statement
	var err1, err2 error
	if !noPanic("C18/nostate/no-panic", func() {
		// REPEAT > 1: the same first statement many times over (whatever a statement
		// leaves behind must not add up either)
		for i := verif.Param("REPEAT", 1); i > 0; i-- {
			err1 = shared.Parse(grammar.NewLLk(text1, 1), &semantic.Statement{})
		}
		st2 = &semantic.Statement{}
		err2 = shared.Parse(grammar.NewLLk(text2, 1), st2)
	}) {
		return
	}
	fresh, ferr := parseText(grammar.SemanticBQL(), text2)
	verif.Reach("parsed")
	if err1 != nil {
		verif.Class(rejectedClass(text1))
	} else {
		verif.Class("after-an-accepted-statement")
	}
	verif.Assert((err2 == nil) == (ferr == nil), "C18/nostate/same-verdict")
	if err2 == nil && ferr == nil {
		verif.Assert(fingerprint(st2) == fingerprint(fresh), "C18/nostate/same-meaning")
	}
	verif.Class("")
}

// inspected returns the tokens the parser looked at: those it consumed plus,
// when it rejected, the token it rejected (later tokens cannot influence it).
func inspected(toks []lexer.Token, llk *grammar.LLk, err error) []lexer.Token {
	k := consumedOf(llk, len(toks))
	if err != nil && k < len(toks) {
		k++
	}
	return toks[:k]
}

// rejectedClass names the witness class of a counterexample that follows a
// rejected first statement.  With DBG=2 the class is the statement itself, which
// is how the list of statements known to leave hook state behind was drawn up.
func rejectedClass(text1 string) string {
	if verif.Param("DBG", 0) == 2 {
		return "rej:" + text1
	}
	if c18KnownLeaks[text1] {
		return "after-a-rejected-statement"
	}
	return "after-a-rejected-statement-not-known-to-leave-state"
}

// semanticWitness renders the witness sentence toks (which takes alternative ai
// of rule s) so that the semantic layer accepts it too where possible: the
// minimal sentences select ?x from a pattern without bindings, which the hooks
// reject, so the subject or the object of the first WHERE clause is turned
// into the binding ?x when the sentence still takes the same alternative.
func semanticWitness(rs []semantic.Symbol, s semantic.Symbol, ai int, toks []lexer.TokenType) string {
	orig := render(toks)
	for _, off := range []int{2, 4} {
		v := append([]lexer.TokenType(nil), toks...)
		done := false
		for i := 0; i+off < len(v) && !done; i++ {
			if v[i] == lexer.ItemWhere && v[i+1] == lexer.ItemLBracket && v[i+2] == lexer.ItemNode && v[i+3] == lexer.ItemPredicate &&
				(off == 2 || v[i+4] == lexer.ItemLiteral) {
				v[i+off] = lexer.ItemBinding
				done = true
			}
		}
		if !done {
			continue
		}
		text := render(v)
		if _, err := parseText(grammar.SemanticBQL(), text); err == nil && tryWitness(rs, s, ai, text) {
			return text
		}
	}
	return orig
}

// C18 (c''): no state between statements, systematically over the grammar: the
// first statement is a witness sentence for alternative ALT of rule RULE (the
// sentences C17 derives from the grammar tables, one per place where the rule
// is mentioned), so that every hook-carrying alternative is exercised as "the
// statement parsed earlier"; the second is a corpus statement.
func HarnessC18NoStateWitness() {
	g := grammar.BQL()
	rs := rules(g)
	min := minimalExpansions(g)
	s := rs[verif.Choice("rule", len(rs))]
	ai := verif.Choice("alt", len((*g)[s]))
	cands := candidates(g, s, ai, min)
	if len(cands) == 0 {
		return
	}
	text1 := semanticWitness(rs, s, ai, cands[verif.Choice("cand", len(cands))])
	// the second statement: four representative corpus statements (a plain SELECT
	// with binding subject and object, the SELECT with every tail clause, INSERT,
	// CONSTRUCT) or, with ALL=1, the whole corpus
	second := []int{0, 1, 2, 6, 14}
	if verif.Param("ALL", 0) == 1 {
		second = nil
		for i := range c18Corpus {
			second = append(second, i)
		}
	}
	text2 := c18Corpus[second[verif.Choice("second", len(second))]]
	shared, err := grammar.NewParser(grammar.SemanticBQL())
	verif.Assume(err == nil)
	var st2 *semantic.Statement
	var err1, err2 error
	if !noPanic("C18/nostate/no-panic", func() {
		err1 = shared.Parse(grammar.NewLLk(text1, 1), &semantic.Statement{})
		st2 = &semantic.Statement{}
		err2 = shared.Parse(grammar.NewLLk(text2, 1), st2)
	}) {
		return
	}
	fresh, ferr := parseText(grammar.SemanticBQL(), text2)
	verif.Reach("parsed")
	hasBound := func(q string) bool {
		return strings.Contains(q, " before ") || strings.Contains(q, " after ") || strings.Contains(q, " between ")
	}
	switch {
	case err1 != nil:
		verif.Class(rejectedClass(text1))
	case strings.Contains(text1, " between ") && hasBound(text2):
		verif.Class("global-time-bound-after-an-accepted-BETWEEN")
	case strings.Contains(text1, " at }") || strings.Contains(text1, " at ."):
		// known: the grammar accepts AT without a binding after a predicate bound in
		// object position; the object hook then still waits for the AT binding
		verif.Class("after-an-accepted-clause-ending-in-AT-without-a-binding")
	default:
		verif.Class("after-an-accepted-statement")
	}
	if verif.Param("SHOW", 0) == 1 {
		verif.Observe("first", text1)
		verif.Observe("second", text2)
	}
	if verif.Param("DBG", 0) == 1 {
		verif.Class(fmt.Sprintf("%s/%d/%d", s, ai, len(cands)))
		verif.Observe("first", text1)
		if err1 != nil {
			verif.Observe("err", err1.Error())
		}
		verif.Assert(err1 == nil, "dbg/first-accepted")
		return
	}
	verif.Assert((err2 == nil) == (ferr == nil), "C18/nostate/same-verdict")
	if err2 == nil && ferr == nil {
		verif.Assert(fingerprint(st2) == fingerprint(fresh), "C18/nostate/same-meaning")
	}
	verif.Class("")
}

// c18KnownLeaks: the rejected first statements after which, on the pinned tree,
// the hooks of SemanticBQL() are known to keep closure state (recorded finding
// C18/nostate/*#after-a-rejected-statement).  Any other rejected statement that
// changes the verdict or meaning of the next one is reported.
var c18KnownLeaks = map[string]bool{
	// a data statement cut after the subject of a further triple: dataAccumulator keeps the partial triple
	`insert data into ?g { /u<a> "p"@[] /u<b> . /u<a>`: true,
	// a predicate bound followed by AT whose bindings are cut short by the rejection: the predicate hook keeps waiting
	`select ?x from ?x where { /u<a> "p"@[2006-01-02T15:04:05Z,2007-01-02T15:04:05Z] at "1"^^type:int64 } ;`:         true,
	`select ?x from ?x where { /u<a> "p"@[2006-01-02T15:04:05Z,2007-01-02T15:04:05Z] at ?x , ?x "1"^^type:int64 } ;`: true,
}

// C18 (c''): nothing adds up: the first statement - a symbolic token sequence
// of up to L tokens as in HarnessC18NoState, optionally behind a cut-off INSERT
// - is lexed once and its tokens are parsed REPEAT times by one parser; the
// corpus statement that follows must be accepted with the meaning a fresh
// parser gives it.  (Whatever a rejected statement leaves behind per attempt -
// a nesting counter, a list - is multiplied until a bound trips.)
func HarnessC18Accumulate() {
	L := verif.Param("L", 2)
	n := 1 + verif.Choice("len", L)
	toks := symTokens(n)
	plain, err := grammar.NewParser(grammar.BQL())
	verif.Assume(err == nil)
	llk := grammar.NewLLkFromTokens(toks, 1)
	perr := plain.Parse(llk, &semantic.Statement{})
	text1 := pinnedText(inspected(toks, llk, perr))
	if verif.Choice("trailing", 2) == 1 {
		text1 = `insert data into ?g { /u<a> "p"@[] /u<b> . ` + text1
	}
	var toks1 []lexer.Token
	for t := range lexer.New(text1, 0) {
		toks1 = append(toks1, t)
	}
	text2 := c18Corpus[verif.Param("SECOND", 0)]
	shared, err := grammar.NewParser(grammar.SemanticBQL())
	verif.Assume(err == nil)
	var st2 *semantic.Statement
	var err1, err2 error
	if !noPanic("C18/accumulate/no-panic", func() {
		for i := verif.Param("REPEAT", 600); i > 0; i-- {
			err1 = shared.Parse(grammar.NewLLkFromTokens(toks1, 1), &semantic.Statement{})
		}
		st2 = &semantic.Statement{}
		err2 = shared.Parse(grammar.NewLLk(text2, 1), st2)
	}) {
		return
	}
	fresh, ferr := parseText(grammar.SemanticBQL(), text2)
	verif.Reach("parsed")
	if err1 != nil {
		verif.Class(rejectedClass(text1))
	} else {
		verif.Class("after-an-accepted-statement")
	}
	verif.Assert((err2 == nil) == (ferr == nil), "C18/accumulate/same-verdict")
	if err2 == nil && ferr == nil {
		verif.Assert(fingerprint(st2) == fingerprint(fresh), "C18/accumulate/same-meaning")
	}
	verif.Class("")
}
