// Package zzbql holds the gosym harnesses for the BQL front end and engine
// (grammar, parser, semantic layer, table kernels, planner).
package zzbql

import (
	"sort"

	verif "github.com/google/badwolf/internal/zzverif"
	"github.com/google/badwolf/bql/grammar"
	"github.com/google/badwolf/bql/lexer"
	"github.com/google/badwolf/bql/semantic"
)

func noPanic(obligation string, f func()) (ok bool) {
	defer func() {
		if r := recover(); r != nil {
			verif.Fail(obligation)
			ok = false
		}
	}()
	f()
	return true
}

// rules returns the grammar's symbols in sorted order.
func rules(g *grammar.Grammar) []semantic.Symbol {
	var ks []string
	for k := range *g {
		ks = append(ks, string(k))
	}
	sort.Strings(ks)
	out := make([]semantic.Symbol, len(ks))
	for i, k := range ks {
		out[i] = semantic.Symbol(k)
	}
	return out
}

func isSym(e grammar.Element) bool { return e.Symbol() != "" }

// sample text for each token type; prev is the type of the previous token
// (the lexer reads times and bounds differently after BEFORE/AFTER/BETWEEN and
// after comparison operators).
func tokenText(t, prev lexer.TokenType) string {
	global := prev == lexer.ItemBefore || prev == lexer.ItemAfter || prev == lexer.ItemBetween
	switch t {
	case lexer.ItemQuery:
		return "select"
	case lexer.ItemInsert:
		return "insert"
	case lexer.ItemDelete:
		return "delete"
	case lexer.ItemCreate:
		return "create"
	case lexer.ItemConstruct:
		return "construct"
	case lexer.ItemDeconstruct:
		return "deconstruct"
	case lexer.ItemDrop:
		return "drop"
	case lexer.ItemGraph:
		return "graph"
	case lexer.ItemData:
		return "data"
	case lexer.ItemInto:
		return "into"
	case lexer.ItemFrom:
		return "from"
	case lexer.ItemWhere:
		return "where"
	case lexer.ItemAs:
		return "as"
	case lexer.ItemType:
		return "type"
	case lexer.ItemID:
		return "id"
	case lexer.ItemAt:
		return "at"
	case lexer.ItemIn:
		return "in"
	case lexer.ItemBefore:
		return "before"
	case lexer.ItemAfter:
		return "after"
	case lexer.ItemBetween:
		return "between"
	case lexer.ItemCount:
		return "count"
	case lexer.ItemDistinct:
		return "distinct"
	case lexer.ItemSum:
		return "sum"
	case lexer.ItemGroup:
		return "group"
	case lexer.ItemBy:
		return "by"
	case lexer.ItemOrder:
		return "order"
	case lexer.ItemHaving:
		return "having"
	case lexer.ItemAsc:
		return "asc"
	case lexer.ItemDesc:
		return "desc"
	case lexer.ItemLimit:
		return "limit"
	case lexer.ItemBinding:
		return "?x"
	case lexer.ItemNode:
		return "/u<a>"
	case lexer.ItemBlankNode:
		return "_:b"
	case lexer.ItemLiteral:
		return "\"1\"^^type:int64"
	case lexer.ItemPredicate:
		return "\"p\"@[]"
	case lexer.ItemPredicateBound:
		if global {
			return "2006-01-02T15:04:05Z,2007-01-02T15:04:05Z"
		}
		return "\"p\"@[2006-01-02T15:04:05Z,2007-01-02T15:04:05Z]"
	case lexer.ItemTime:
		return "2006-01-02T15:04:05Z"
	case lexer.ItemLBracket:
		return "{"
	case lexer.ItemRBracket:
		return "}"
	case lexer.ItemLPar:
		return "("
	case lexer.ItemRPar:
		return ")"
	case lexer.ItemDot:
		return "."
	case lexer.ItemSemicolon:
		return ";"
	case lexer.ItemComma:
		return ","
	case lexer.ItemLT:
		return "<"
	case lexer.ItemGT:
		return ">"
	case lexer.ItemEQ:
		return "="
	case lexer.ItemNot:
		return "not"
	case lexer.ItemAnd:
		return "and"
	case lexer.ItemOr:
		return "or"
	case lexer.ItemShow:
		return "show"
	case lexer.ItemGraphs:
		return "graphs"
	case lexer.ItemOptional:
		return "optional"
	case lexer.ItemFilter:
		return "filter"
	case lexer.ItemFilterFunction:
		return "latest"
	}
	return "@@@"
}

// render turns a token-type sequence into statement text.
func render(toks []lexer.TokenType) string {
	s := ""
	prev := lexer.ItemError
	for i, t := range toks {
		// the lexer wants a filter function name directly followed by "("
		if i > 0 && !(prev == lexer.ItemFilterFunction && t == lexer.ItemLPar) {
			s += " "
		}
		s += tokenText(t, prev)
		prev = t
	}
	return s
}
