package zzbql

import (
	"time"

	verif "github.com/google/badwolf/internal/zzverif"
	"github.com/google/badwolf/bql/table"
	"github.com/google/badwolf/triple"
	"github.com/google/badwolf/triple/literal"
	"github.com/google/badwolf/triple/node"
	"github.com/google/badwolf/triple/predicate"
)

// The small universe of the end-to-end harnesses: subject /u<sb>, predicate
// "pb" immutable or temporal at anchors[pa], object node /u<ob> or text "ob".
// sb, pb, ob are solver variables over {a, b}; kinds are skeleton choices.
var anchors = []time.Time{
	time.Date(2020, 1, 1, 12, 0, 0, 0, time.UTC),
	time.Date(2021, 6, 30, 23, 59, 59, 0, time.UTC),
	time.Date(2020, 1, 1, 12, 0, 0, 1, time.UTC), // anchors[0] plus one and plus two nanoseconds: drawn only by the shapes that list them
	time.Date(2020, 1, 1, 12, 0, 0, 2, time.UTC),
}

const baseAnchors = 2

type dspec struct {
	sb, pb, ob byte
	pk, pa     int // predicate kind (0 immutable, 1 temporal), anchor index
	ok         int // object kind: 0 node, 1 text literal, 2 int64 literal (value ob-'a'), 3 immutable predicate "ob"@[], 4 temporal predicate "ob"@[anchors[oa]]
	oa         int // anchor index of a temporal predicate object
	t          *triple.Triple
}

func alphaB(c byte) bool { return verif.Or(c == 'a', c == 'b') }

func symData(name string, temporal bool) *dspec {
	d := &dspec{sb: verif.Byte(name + ".s"), pb: verif.Byte(name + ".p"), ob: verif.Byte(name + ".o")}
	verif.Assume(verif.And(alphaB(d.sb), verif.And(alphaB(d.pb), alphaB(d.ob))))
	if temporal {
		d.pk = verif.Choice(name+".pk", 2)
		if d.pk == 1 {
			d.pa = verif.Choice(name+".pa", baseAnchors)
		}
	}
	d.ok = verif.Choice(name+".ok", 2)
	d.t = d.build()
	return d
}

func (d *dspec) build() *triple.Triple {
	s, err := node.NewNodeFromStrings("/u", string([]byte{d.sb}))
	if err != nil {
		panic(err)
	}
	var p *predicate.Predicate
	if d.pk == 0 {
		p, err = predicate.NewImmutable(string([]byte{d.pb}))
	} else {
		p, err = predicate.NewTemporal(string([]byte{d.pb}), anchors[d.pa])
	}
	if err != nil {
		panic(err)
	}
	var o *triple.Object
	switch d.ok {
	case 0:
		n, err := node.NewNodeFromStrings("/u", string([]byte{d.ob}))
		if err != nil {
			panic(err)
		}
		o = triple.NewNodeObject(n)
	case 1:
		l, err := literal.DefaultBuilder().Build(literal.Text, string([]byte{d.ob}))
		if err != nil {
			panic(err)
		}
		o = triple.NewLiteralObject(l)
	case 2:
		l, err := literal.DefaultBuilder().Build(literal.Int64, int64(d.ob)-'a')
		if err != nil {
			panic(err)
		}
		o = triple.NewLiteralObject(l)
	case 5:
		l, err := literal.DefaultBuilder().Build(literal.Text, string([]byte{'0' + d.ob - 'a'}))
		if err != nil {
			panic(err)
		}
		o = triple.NewLiteralObject(l)
	case 3:
		op, err := predicate.NewImmutable(string([]byte{d.ob}))
		if err != nil {
			panic(err)
		}
		o = triple.NewPredicateObject(op)
	default:
		op, err := predicate.NewTemporal(string([]byte{d.ob}), anchors[d.oa])
		if err != nil {
			panic(err)
		}
		o = triple.NewPredicateObject(op)
	}
	t, err := triple.New(s, p, o)
	if err != nil {
		panic(err)
	}
	return t
}

func (d *dspec) eq(o *dspec) bool {
	if d.pk != o.pk || d.ok != o.ok || (d.pk == 1 && d.pa != o.pa) || (d.ok == 4 && d.oa != o.oa) {
		return false
	}
	return verif.And(d.sb == o.sb, verif.And(d.pb == o.pb, d.ob == o.ob))
}

func dtriples(ds []*dspec) []*triple.Triple {
	out := make([]*triple.Triple, len(ds))
	for i, d := range ds {
		out[i] = d.t
	}
	return out
}

// val is the value of a binding: a node, a predicate, a text literal, a time,
// an extracted id or type string, or an int64 literal.
type val struct {
	kind int // 0 node, 1 predicate, 2 text literal, 3 time anchor, 4 one-byte string (ID), 5 the string "/u" (TYPE), 6 int64 literal, 7 NULL, 8 text literal holding the digit '0'+b-'a'
	b    byte
	pk   int // predicate kind / anchor for kind 1 and 3
	pa   int
	i    int64 // value of an int64 literal
}

func (v val) eq(o val) bool {
	if v.kind != o.kind {
		return false
	}
	switch v.kind {
	case 1:
		if v.pk != o.pk || (v.pk == 1 && v.pa != o.pa) {
			return false
		}
	case 3:
		return v.pa == o.pa
	case 5, 7:
		return true
	case 6:
		return v.i == o.i
	}
	return v.b == o.b
}

// cellIs: the table cell holds exactly value v.
func cellIs(c *table.Cell, v val) bool {
	if c == nil {
		return false
	}
	switch v.kind {
	case 0:
		if c.N == nil || c.N.Type().String() != "/u" || len(c.N.ID().String()) != 1 {
			return false
		}
		return c.N.ID().String()[0] == v.b
	case 1:
		if c.P == nil || len(c.P.ID()) != 1 {
			return false
		}
		if (c.P.Type() == predicate.Temporal) != (v.pk == 1) {
			return false
		}
		if v.pk == 1 {
			ta, _ := c.P.TimeAnchor()
			if !ta.Equal(anchors[v.pa]) {
				return false
			}
		}
		return string(c.P.ID())[0] == v.b
	case 2:
		if c.L == nil {
			return false
		}
		t, err := c.L.Text()
		if err != nil || len(t) != 1 {
			return false
		}
		return t[0] == v.b
	case 8:
		if c.L == nil {
			return false
		}
		t, err := c.L.Text()
		if err != nil || len(t) != 1 {
			return false
		}
		return t[0] == '0'+v.b-'a'
	case 3:
		return c.T != nil && c.T.Equal(anchors[v.pa])
	case 4:
		if c.S == nil || len(*c.S) != 1 {
			return false
		}
		return (*c.S)[0] == v.b
	case 5:
		return c.S != nil && *c.S == "/u"
	case 6:
		if c.L == nil || c.L.Type() != literal.Int64 {
			return false
		}
		x, err := c.L.Int64()
		if err != nil {
			return false
		}
		return x == v.i
	default:
		return isNullCell(c)
	}
}
