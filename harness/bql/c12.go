package zzbql

import (
	"time"

	"github.com/google/badwolf/bql/grammar"
	"github.com/google/badwolf/bql/semantic"

	verif "github.com/google/badwolf/internal/zzverif"
	"github.com/google/badwolf/bql/table"
	"github.com/google/badwolf/triple/literal"
)

func intCell(v int64) *table.Cell {
	l, err := literal.DefaultBuilder().Build(literal.Int64, v)
	if err != nil {
		panic(err)
	}
	return &table.Cell{L: l}
}

func floatCell(v float64) *table.Cell {
	l, err := literal.DefaultBuilder().Build(literal.Float64, v)
	if err != nil {
		panic(err)
	}
	return &table.Cell{L: l}
}

func strCell(s string) *table.Cell { return &table.Cell{S: table.CellString(s)} }

func mkTable(bs []string, rows []table.Row) *table.Table {
	t, err := table.New(bs)
	if err != nil {
		panic(err)
	}
	for _, r := range rows {
		t.AddRow(r)
	}
	return t
}

func sortCfg(keys []string, desc []bool) table.SortConfig {
	// SortConfig's element type is unexported; build it through the exported
	// slice type with a composite literal per entry via the zero value.
	cfg := make(table.SortConfig, len(keys))
	for i := range keys {
		cfg[i].Binding = keys[i]
		cfg[i].Desc = desc[i]
	}
	return cfg
}

// C12 (a): int64 keys order numerically over the full 64-bit range.
func HarnessC12IntOrder() {
	x, y := verif.Int64("x"), verif.Int64("y")
	verif.Assume(x != y)
	desc := verif.Choice("desc", 2) == 1
	if verif.And(x < 0, y < 0) {
		verif.Class("both-negative")
	}
	t := mkTable([]string{"?k"}, []table.Row{{"?k": intCell(x)}, {"?k": intCell(y)}})
	if !noPanic("C12/int-order/no-panic", func() { t.Sort(sortCfg([]string{"?k"}, []bool{desc})) }) {
		return
	}
	verif.Reach("sorted")
	r0, _ := t.Row(0)
	r1, _ := t.Row(1)
	a, _ := r0["?k"].L.Int64()
	b, _ := r1["?k"].L.Int64()
	verif.Assert(verif.Or(verif.And(a == x, b == y), verif.And(a == y, b == x)), "C12/int-order/permutation")
	if desc {
		verif.Assert(a > b, "C12/int-order/numeric")
	} else {
		verif.Assert(a < b, "C12/int-order/numeric")
	}
}

var c12Times = []time.Time{
	time.Date(2020, 1, 1, 12, 0, 0, 0, time.UTC),
	time.Date(2020, 1, 1, 13, 0, 0, 0, time.UTC),
	time.Date(2020, 1, 1, 14, 0, 0, 0, time.FixedZone("plus2", 7200)), // = 12:00Z
	time.Date(2020, 1, 1, 12, 0, 0, 1, time.UTC),
	time.Date(2021, 6, 30, 23, 59, 59, 0, time.UTC),
	time.Date(1500, 3, 1, 0, 0, 0, 0, time.UTC), // outside the range of int64 nanoseconds since 1970
	time.Date(2300, 3, 1, 0, 0, 0, 0, time.UTC),
}

// C12 (a'): time keys order chronologically (anchors from a concrete pool:
// this dimension is enumerated, not solved).
func HarnessC12TimeOrder() {
	i, j := verif.Choice("i", len(c12Times)), verif.Choice("j", len(c12Times))
	x, y := c12Times[i], c12Times[j]
	if x.Equal(y) {
		return
	}
	verif.Reach("distinct-instants")
	_, ox := x.Zone()
	_, oy := y.Zone()
	switch {
	case ox != oy:
		verif.Class("anchors-in-different-zones")
	case x.Nanosecond() != 0 || y.Nanosecond() != 0:
		verif.Class("anchors-with-different-precision")
	}
	t := mkTable([]string{"?k"}, []table.Row{{"?k": &table.Cell{T: &x}}, {"?k": &table.Cell{T: &y}}})
	t.Sort(sortCfg([]string{"?k"}, []bool{false}))
	r0, _ := t.Row(0)
	r1, _ := t.Row(1)
	verif.Assert(r0["?k"].T.Before(*r1["?k"].T), "C12/time-order/chronological")
}

// C12 (b): Sort returns a permutation whose adjacent rows are ordered by the
// listed keys in sequence and direction (string cells of one symbolic byte).
func HarnessC12Permutation() {
	n := 2 + verif.Choice("rows", verif.Param("ROWS", 2))
	nk := 1 + verif.Choice("keys", 2)
	keys := []string{"?a", "?b"}[:nk]
	desc := []bool{verif.Choice("d0", 2) == 1, verif.Choice("d1", 2) == 1}[:nk]
	type rowv struct{ a, b byte }
	in := make([]rowv, n)
	rows := make([]table.Row, n)
	for i := range in {
		in[i] = rowv{verif.Byte("a"), verif.Byte("b")}
		verif.Assume(verif.And(verif.And(in[i].a >= 'a', in[i].a <= 'c'), verif.And(in[i].b >= 'a', in[i].b <= 'c')))
		rows[i] = table.Row{"?a": strCell(string([]byte{in[i].a})), "?b": strCell(string([]byte{in[i].b})), "?id": strCell(string([]byte{'0' + byte(i)}))}
	}
	t := mkTable([]string{"?a", "?b", "?id"}, rows)
	if !noPanic("C12/permutation/no-panic", func() { t.Sort(sortCfg(keys, desc)) }) {
		return
	}
	verif.Reach("sorted")
	verif.Assert(t.NumRows() == n, "C12/permutation/same-row-count")
	seen := make([]bool, n)
	out := make([]rowv, 0, n)
	for i := 0; i < t.NumRows(); i++ {
		r, _ := t.Row(i)
		id := int((*r["?id"].S)[0] - '0')
		verif.Assert(id >= 0 && id < n && !seen[id], "C12/permutation/each-row-once")
		if id < 0 || id >= n {
			return
		}
		seen[id] = true
		verif.Assert((*r["?a"].S)[0] == in[id].a && (*r["?b"].S)[0] == in[id].b, "C12/permutation/rows-unchanged")
		out = append(out, in[id])
	}
	// adjacent rows ordered: not (next < prev) under the key list
	for i := 0; i+1 < len(out); i++ {
		p, q := out[i], out[i+1]
		lessA, lessB := q.a < p.a, q.b < p.b
		if desc[0] {
			lessA = q.a > p.a
		}
		if nk == 2 && desc[1] {
			lessB = q.b > p.b
		}
		wrong := lessA
		if nk == 2 {
			wrong = verif.Or(lessA, verif.And(q.a == p.a, lessB))
		}
		verif.Assert(!wrong, "C12/permutation/adjacent-rows-ordered")
	}
}

// C12 (c): Limit(i) keeps the first min(i, N) rows, for every i >= 0.
func HarnessC12Limit() {
	n := verif.Choice("rows", verif.Param("ROWS", 3)+1)
	rows := make([]table.Row, n)
	for i := range rows {
		rows[i] = table.Row{"?id": strCell(string([]byte{'0' + byte(i)}))}
	}
	t := mkTable([]string{"?id"}, rows)
	i := verif.Int64("limit")
	// negative limits are rejected when the statement is parsed (HarnessC12LimitClause)
	verif.Assume(i >= 0)
	if !noPanic("C12/limit/no-panic", func() { t.Limit(i) }) {
		return
	}
	verif.Reach("limited")
	want := int64(n)
	if i < want {
		want = i
	}
	verif.Assert(int64(t.NumRows()) == want, "C12/limit/row-count")
	for k := 0; k < t.NumRows(); k++ {
		r, _ := t.Row(k)
		verif.Assert((*r["?id"].S)[0] == '0'+byte(k), "C12/limit/first-rows-in-order")
	}
}

// C12 (c'): the LIMIT clause: for every literal text made of an optional sign
// and up to D symbolic digit bytes (and for non-int64 literals), the statement
// is accepted exactly when the text is a non-negative int64, and then Limit()
// is that value.
func HarnessC12LimitClause() {
	D := verif.Param("D", 2)
	sign := []string{"", "-", "+"}[verif.Choice("sign", 3)]
	digits := verif.String("d", 1+verif.Choice("nd", D))
	allDigits := true
	for i := 0; i < len(digits); i++ {
		allDigits = verif.And(allDigits, verif.And(digits[i] >= '0', digits[i] <= '9'))
		verif.Assume(verif.And(digits[i] >= '/', digits[i] <= ':'))
	}
	ty := []string{"int64", "float64", "text"}[verif.Choice("type", 3)]
	text := "select ?s from ?g where { ?s \"p\"@[] ?o } limit \"" + sign + digits + "\"^^type:" + ty + " ;"
	var st *semantic.Statement
	var err error
	if !noPanic("C12/limit-clause/no-panic", func() { st, err = parseText(grammar.SemanticBQL(), text) }) {
		return
	}
	verif.Reach("parsed")
	valid := ty == "int64" && sign != "-"
	if valid {
		verif.Assert((err == nil) == allDigits, "C12/limit-clause/accepted-iff-non-negative-int64")
	} else if ty == "int64" {
		// "-0" is zero: accepted or rejected, but never a negative limit
		if err == nil {
			verif.Assert(st.Limit() >= 0, "C12/limit-clause/never-negative")
		}
	} else {
		verif.Assert(err != nil, "C12/limit-clause/non-int64-rejected")
	}
	if err == nil {
		verif.Assert(st.IsLimitSet() && st.Limit() >= 0, "C12/limit-clause/never-negative")
		if valid {
			var want int64
			for i := 0; i < len(digits); i++ {
				want = want*10 + int64(digits[i]-'0')
			}
			verif.Assert(st.Limit() == want, "C12/limit-clause/value")
		}
	}
}
