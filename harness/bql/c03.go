package zzbql

import (
	"sort"

	verif "github.com/google/badwolf/internal/zzverif"
	"github.com/google/badwolf/bql/table"
)

// A pattern position: a constant or a binding.
type pos struct {
	bind string // "" = constant
	cb   byte   // constant byte
}

// qclause is one triple clause of the conjunctive fragment.
type qclause struct {
	s, p, o pos
	pk, pa  int    // kind/anchor of a constant predicate
	ok      int    // kind of a constant object (0 node, 1 text)
	at      string // anchor binding: "p"@[?t]
}

func (c qclause) text() string {
	s := "?" + c.s.bind
	if c.s.bind == "" {
		s = "/u<" + string([]byte{c.s.cb}) + ">"
	}
	p := "?" + c.p.bind
	if c.p.bind == "" {
		p = "\"" + string([]byte{c.p.cb}) + "\"@["
		switch {
		case c.at != "":
			p += "?" + c.at
		case c.pk == 1:
			p += anchors[c.pa].Format("2006-01-02T15:04:05.999999999Z07:00")
		}
		p += "]"
	}
	o := "?" + c.o.bind
	if c.o.bind == "" {
		if c.ok == 0 {
			o = "/u<" + string([]byte{c.o.cb}) + ">"
		} else {
			o = "\"" + string([]byte{c.o.cb}) + "\"^^type:text"
		}
	}
	return s + " " + p + " " + o
}

type env map[string]val

// bind: binding name gets value v under e; returns the condition under which
// this is consistent (true when fresh), recording the value when fresh.
func (e env) bind(name string, v val) bool {
	if old, ok := e[name]; ok {
		return old.eq(v)
	}
	e[name] = v
	return true
}

// matches: clause c is satisfied by stored triple d under environment e
// (extended with c's fresh bindings).  One solver term.
func (c qclause) matches(d *dspec, e env) bool {
	r := true
	sv := val{kind: 0, b: d.sb}
	if c.s.bind == "" {
		r = verif.And(r, d.sb == c.s.cb)
	} else {
		r = verif.And(r, e.bind(c.s.bind, sv))
	}
	pv := val{kind: 1, b: d.pb, pk: d.pk, pa: d.pa}
	if c.p.bind == "" {
		r = verif.And(r, d.pb == c.p.cb)
		switch {
		case c.at != "":
			if d.pk != 1 {
				return false
			}
			r = verif.And(r, e.bind(c.at, val{kind: 3, pa: d.pa}))
		case c.pk != d.pk || (c.pk == 1 && c.pa != d.pa):
			return false
		}
	} else {
		r = verif.And(r, e.bind(c.p.bind, pv))
	}
	ov := val{kind: 0, b: d.ob}
	if d.ok == 1 {
		ov.kind = 2
	}
	if c.o.bind == "" {
		if c.ok != d.ok {
			return false
		}
		r = verif.And(r, d.ob == c.o.cb)
	} else {
		r = verif.And(r, e.bind(c.o.bind, ov))
	}
	return r
}

// bindingsOf lists the bindings of the pattern in order of first occurrence.
func bindingsOf(cs []qclause) []string {
	var out []string
	seen := map[string]bool{}
	add := func(n string) {
		if n != "" && !seen[n] {
			seen[n] = true
			out = append(out, n)
		}
	}
	for _, c := range cs {
		add(c.s.bind)
		add(c.p.bind)
		add(c.at)
		add(c.o.bind)
	}
	return out
}

func selectText(cs []qclause, graphs string) string {
	bs := bindingsOf(cs)
	q := "select "
	for i, b := range bs {
		if i > 0 {
			q += ", "
		}
		q += "?" + b
	}
	q += " from " + graphs + " where { "
	for i, c := range cs {
		if i > 0 {
			q += " . "
		}
		q += c.text()
	}
	return q + " } ;"
}

var (
	bS, bP, bO, bZ, bT = pos{bind: "s"}, pos{bind: "p"}, pos{bind: "o"}, pos{bind: "z"}, pos{bind: "t"}
	cA                 = pos{cb: 'a'}
)

// the shapes of the conjunctive fragment exercised: one- and two-clause
// patterns with constants, new and repeated bindings in every position.
var c03Shapes = [][]qclause{
	{{s: bS, p: cA, o: bO}},                          // ?s "a"@[] ?o
	{{s: bS, p: bP, o: bO}},                          // ?s ?p ?o
	{{s: cA, p: bP, o: bO}},                          // /u<a> ?p ?o
	{{s: bS, p: cA, o: cA}},                          // ?s "a"@[] /u<a>
	{{s: bS, p: cA, o: cA, ok: 1}},                   // ?s "a"@[] "a"^^type:text
	{{s: cA, p: cA, o: bO}},                          // /u<a> "a"@[] ?o
	{{s: bS, p: bP, o: cA}},                          // ?s ?p /u<a>
	{{s: cA, p: bP, o: cA}},                          // /u<a> ?p /u<a>
	{{s: bS, p: cA, o: bS}},                          // ?s "a"@[] ?s   (repeated binding)
	{{s: bS, p: cA, o: bO}, {s: cA, p: cA, o: cA}},   // plus a fully specified clause (existence test)
	{{s: bS, p: cA, o: bO, pk: 1, pa: 0}},            // ?s "a"@[anchor0] ?o
	{{s: bS, p: cA, o: bO, at: "t"}},                 // ?s "a"@[?t] ?o
	{{s: bS, p: cA, o: bO}, {s: bO, p: cA, o: bZ}},   // join on ?o
	{{s: bS, p: cA, o: bO}, {s: bS, p: pos{cb: 'b'}, o: bZ}}, // join on ?s
	{{s: bS, p: bP, o: bO}, {s: bO, p: bP, o: bZ}},   // join on ?o and ?p
	{{s: bS, p: cA, o: bO}, {s: bZ, p: pos{cb: 'b'}, o: bT}}, // disjoint: product
	{{s: bS, p: cA, o: bO}, {s: cA, p: cA, o: bO}},   // second clause adds no binding
}

// C03: SELECT over the conjunctive fragment returns exactly the solutions of
// its pattern: data = K symbolic triples in one graph, statement = shape SHAPE.
func HarnessC03Select() {
	shape := verif.Param("SHAPE", -1)
	if shape < 0 {
		shape = verif.Choice("shape", len(c03Shapes))
	}
	cs := c03Shapes[shape]
	temporal := verif.Param("TEMPORAL", 1) == 1
	K := 1 + verif.Choice("k", verif.Param("K", 2))
	data := make([]*dspec, K)
	for i := range data {
		data[i] = symData("d", temporal)
	}
	st, _ := newStoreWith("?g", dtriples(data))
	q := selectText(cs, "?g")
	var tbl *table.Table
	var err error
	if !noPanic("C03/no-panic", func() { tbl, err = runBQL(st, q, verif.Param("CHAN", 0), verif.Param("BULK", 10)) }) {
		return
	}
	verif.Reach("executed")
	verif.Class(c03Class(cs, data))
	if err != nil {
		verif.Observe("query", q)
		verif.Observe("error", err.Error())
	}
	verif.Assert(err == nil, "C03/query-succeeds")
	if err != nil {
		return
	}
	if verif.Param("SHOW", 0) == 1 {
		verif.Observe("query", q)
		for _, d := range data {
			verif.Observe("triple", d.t.String())
		}
		verif.Observe("table", tbl.String())
	}
	checkSolutions(cs, data, tbl, "C03")
}

// checkSolutions compares the result table with the brute-force solutions of
// the pattern cs over the stored triples data (identity classes of triples).
func checkSolutions(cs []qclause, data []*dspec, tbl *table.Table, id string) {
	baseClass := c03Class(cs, data)
	// witness class of the driver's known defect (C02): a constant predicate of
	// the pattern and a stored predicate share the identifier but not the kind
	// (or, both temporal, not the anchor)
	for _, c := range cs {
		if c.p.bind != "" {
			continue
		}
		for _, d := range data {
			kindDiffers := c.pk != d.pk
			if c.at != "" {
				kindDiffers = false
			}
			if kindDiffers && d.pb == c.p.cb && baseClass == "" {
				verif.Class("pattern-predicate-and-stored-predicate-differ-in-kind-only")
			}
		}
	}
	// ... or two stored predicates do, while the pattern passes a predicate
	// binding from clause to clause
	predBinding := false
	for _, c := range cs {
		if c.p.bind != "" {
			predBinding = true
		}
	}
	if predBinding && baseClass == "" {
		for i, d := range data {
			for _, d2 := range data[i+1:] {
				if (d.pk != d2.pk || (d.pk == 1 && d.pa != d2.pa)) && d.pb == d2.pb {
					verif.Class("pattern-predicate-and-stored-predicate-differ-in-kind-only")
				}
			}
		}
	}
	// a stored triple counts once: the first of its identity class
	first := make([]bool, len(data))
	for i := range data {
		f := true
		for j := 0; j < i; j++ {
			f = verif.And(f, !data[i].eq(data[j]))
		}
		first[i] = f
	}
	// all assignments clause -> stored triple
	type assignment struct {
		cond bool
		e    env
	}
	var as []assignment
	idx := make([]int, len(cs))
	for {
		e := env{}
		cond := true
		for ci, c := range cs {
			d := data[idx[ci]]
			cond = verif.And(cond, verif.And(first[idx[ci]], c.matches(d, e)))
		}
		as = append(as, assignment{cond, e})
		k := 0
		for k < len(idx) {
			idx[k]++
			if idx[k] < len(data) {
				break
			}
			idx[k] = 0
			k++
		}
		if k == len(idx) {
			break
		}
	}
	bs := bindingsOf(cs)
	sort.Strings(bs)
	rowIs := func(r table.Row, e env) bool {
		ok := true
		for _, b := range bs {
			v, has := e[b]
			if !has {
				return false
			}
			ok = verif.And(ok, cellIs(r["?"+b], v))
		}
		return ok
	}
	conds := make([]bool, len(as))
	for i, a := range as {
		conds[i] = a.cond
	}
	verif.Assert(tbl.NumRows() == verif.Count(conds...), id+"/one-row-per-solution")
	for x := 0; x < tbl.NumRows(); x++ {
		r, _ := tbl.Row(x)
		any := false
		for _, a := range as {
			any = verif.Or(any, verif.And(a.cond, rowIs(r, a.e)))
		}
		verif.Assert(any, id+"/every-row-is-a-solution")
	}
	for _, a := range as {
		found := false
		for x := 0; x < tbl.NumRows(); x++ {
			r, _ := tbl.Row(x)
			found = verif.Or(found, rowIs(r, a.e))
		}
		verif.Assert(verif.Implies(a.cond, found), id+"/every-solution-is-a-row")
	}
}

// c03Class names the witness class of two known planner defects, or "".
func c03Class(cs []qclause, data []*dspec) string {
	// a fully specified clause next to clauses with bindings
	if len(cs) > 1 {
		for _, c := range cs {
			if c.s.bind == "" && c.p.bind == "" && c.o.bind == "" && c.at == "" {
				return "fully-specified-clause-next-to-binding-clauses"
			}
		}
	}
	// a binding in object position of one clause and subject position of
	// another, with a literal object stored
	for _, c := range cs {
		if c.o.bind == "" {
			continue
		}
		for _, c2 := range cs {
			if c2.s.bind == c.o.bind {
				for _, d := range data {
					if d.ok == 1 {
						return "object-binding-holding-a-literal-reused-as-subject"
					}
				}
			}
		}
	}
	return ""
}
