package zzbql

import (
	"runtime"
	"time"

	"github.com/google/badwolf/bql/table"
	verif "github.com/google/badwolf/internal/zzverif"
	"github.com/google/badwolf/storage/memory"
	"github.com/google/badwolf/triple"
	"github.com/google/badwolf/triple/predicate"
)

// rowKeys renders every row as the tab-joined printed cells of bs (symbolic text).
func rowKeys(t *table.Table, bs []string) []string {
	var out []string
	for i := 0; i < t.NumRows(); i++ {
		r, _ := t.Row(i)
		k := ""
		for _, b := range bs {
			c := r[b]
			if c == nil {
				k += "<MISSING>\t"
			} else {
				k += c.String() + "\t"
			}
		}
		out = append(out, k)
	}
	return out
}

func countEq(x string, xs []string) int {
	bs := make([]bool, len(xs))
	for i, y := range xs {
		bs[i] = x == y
	}
	return verif.Count(bs...)
}

// sameMultiset: fork-free multiset equality of two lists of symbolic strings.
func sameMultiset(a, b []string) bool {
	if len(a) != len(b) {
		return false
	}
	r := true
	for _, x := range a {
		r = verif.And(r, countEq(x, a) == countEq(x, b))
	}
	return r
}

func subMultiset(a, b []string) bool {
	r := true
	for _, x := range a {
		r = verif.And(r, countEq(x, a) <= countEq(x, b))
	}
	return r
}

func qnames(bs []string) []string {
	out := make([]string, len(bs))
	for i, b := range bs {
		out[i] = "?" + b
	}
	return out
}

func rename(cs []qclause, m map[string]string) []qclause {
	out := make([]qclause, len(cs))
	for i, c := range cs {
		r := func(p pos) pos {
			if p.bind != "" {
				p.bind = m[p.bind]
			}
			return p
		}
		out[i] = c
		out[i].s, out[i].p, out[i].o = r(c.s), r(c.p), r(c.o)
		if c.at != "" {
			out[i].at = m[c.at]
		}
	}
	return out
}

// shapes without the known-defect classes of C03 (no fully specified clause)
var c14Shapes = []int{0, 1, 2, 6, 10, 11, 12, 13, 14, 15}

// C14: metamorphic relations on one SELECT over symbolic data: the multiset of
// rows must not change with binding names, channel/bulk sizes, repetition,
// clause order, or the partition of the data over the FROM graphs; adding a
// triple never removes a row.
func HarnessC14Relations() {
	shape := c14Shapes[verif.Choice("shape", len(c14Shapes))]
	cs := c03Shapes[shape]
	K := 1 + verif.Choice("k", verif.Param("K", 2))
	data := make([]*dspec, K)
	for i := range data {
		data[i] = symData("d", verif.Param("TEMPORAL", 0) == 1)
	}
	bs := bindingsOf(cs)
	st, _ := newStoreWith("?g", dtriples(data))
	base, err := runBQL(st, selectText(cs, "?g"), 0, 10)
	verif.Assume(err == nil)
	ref := rowKeys(base, qnames(bs))
	// the planner defect recorded under C03 (a literal joined with a node) also
	// makes the result depend on the clause order: same witness class
	verif.Class(c03Class(cs, data))
	rel := verif.Param("RELATION", -1)
	if rel < 0 {
		rel = verif.Choice("relation", 6)
	}
	switch rel {
	case 0: // consistent renaming of the bindings
		m := map[string]string{}
		for i, b := range bs {
			m[b] = "v" + string([]byte{'0' + byte(i)})
		}
		cs2 := rename(cs, m)
		t2, err := runBQL(st, selectText(cs2, "?g"), 0, 10)
		verif.Reach("renamed")
		verif.Assert(err == nil, "C14/renaming/succeeds")
		if err == nil {
			verif.Assert(sameMultiset(ref, rowKeys(t2, qnames(bindingsOf(cs2)))), "C14/renaming/same-rows")
		}
	case 1: // channel and bulk sizes
		chans := []int{1, 4}
		t2, err := runBQL(st, selectText(cs, "?g"), chans[verif.Choice("chan", 2)], 1+verif.Choice("bulk", 2))
		verif.Reach("resized")
		verif.Assert(err == nil, "C14/sizes/succeeds")
		if err == nil {
			verif.Assert(sameMultiset(ref, rowKeys(t2, qnames(bs))), "C14/sizes/same-rows")
		}
	case 2: // repeated execution
		t2, err := runBQL(st, selectText(cs, "?g"), 0, 10)
		verif.Reach("repeated")
		verif.Assert(err == nil, "C14/repeat/succeeds")
		if err == nil {
			verif.Assert(sameMultiset(ref, rowKeys(t2, qnames(bs))), "C14/repeat/same-rows")
		}
	case 3: // clause order (two-clause shapes)
		if len(cs) != 2 {
			return
		}
		sw := []qclause{cs[1], cs[0]}
		t2, err := runBQL(st, selectText(sw, "?g"), 0, 10)
		verif.Reach("swapped")
		verif.Assert(err == nil, "C14/clause-order/succeeds")
		if err == nil {
			verif.Assert(sameMultiset(ref, rowKeys(t2, qnames(bs))), "C14/clause-order/same-rows")
		}
	case 4: // data partitioned over two graphs listed in FROM
		st2 := memory.NewStore()
		g1, e1 := st2.NewGraph(ctx, "?g")
		g2, e2 := st2.NewGraph(ctx, "?h")
		verif.Assume(e1 == nil && e2 == nil)
		for i, d := range data {
			// identical triples stay together: the property leaves multiplicities
			// open when one triple is stored in several listed graphs
			first := true
			for _, d2 := range data[:i] {
				if d.eq(d2) {
					first = false
				}
			}
			if !first {
				continue
			}
			if verif.Choice("part", 2) == 0 {
				g1.AddTriples(ctx, dtriples([]*dspec{d}))
			} else {
				g2.AddTriples(ctx, dtriples([]*dspec{d}))
			}
		}
		t2, err := runBQL(st2, selectText(cs, "?g, ?h"), 0, 10)
		verif.Reach("partitioned")
		verif.Assert(err == nil, "C14/partition/succeeds")
		if err == nil {
			verif.Assert(sameMultiset(ref, rowKeys(t2, qnames(bs))), "C14/partition/same-rows")
		}
	default: // monotonicity: one more triple never removes a row
		extra := symData("x", verif.Param("TEMPORAL", 0) == 1)
		st3, _ := newStoreWith("?g", dtriples(append(append([]*dspec{}, data...), extra)))
		t2, err := runBQL(st3, selectText(cs, "?g"), 0, 10)
		verif.Reach("extended")
		verif.Assert(err == nil, "C14/monotone/succeeds")
		if err == nil {
			verif.Assert(subMultiset(ref, rowKeys(t2, qnames(bs))), "C14/monotone/rows-kept")
		}
	}
}

// C14 (processors and scheduling): a join whose second clause fans out (three
// rows times two matches) over concrete data; the number of processors is a
// parameter of the run (GOMAXPROCS is what the planner sizes its worker
// semaphore with) and, in schedule mode, the interleaving of the producer and
// the per-row workers is explored by the engine.  The multiset of rows must be
// the reference join on every schedule.
func HarnessC14Procs() {
	n := verif.Param("ROWS", 3)
	if !verif.Symbolic() {
		// natively the processor count is set for real (in the engine the parameter is
		// what runtime.GOMAXPROCS(0) returns)
		if p := verif.Param("GOMAXPROCS", 0); p > 0 {
			defer runtime.GOMAXPROCS(runtime.GOMAXPROCS(p))
		}
	}
	var ts []*triple.Triple
	for i := 0; i < n; i++ {
		u, f := mustNode("/u", string([]byte{'a' + byte(i)})), mustNode("/f", string([]byte{'a' + byte(i)}))
		ts = append(ts, mustTriple(u, mustImmutable("a"), triple.NewNodeObject(f)))
		for j := 0; j < 2; j++ {
			ts = append(ts, mustTriple(f, mustImmutable("b"), triple.NewNodeObject(mustNode("/i", string([]byte{'a' + byte(i), '0' + byte(j)})))))
		}
	}
	q := `select ?s, ?o, ?z from ?g where { ?s "a"@[] ?o . ?o "b"@[] ?z } ;`
	which := verif.Choice("order", 3)
	if which == 1 {
		q = `select ?s, ?o, ?z from ?g where { ?o "b"@[] ?z . ?s "a"@[] ?o } ;`
	}
	bounded := which == 2
	if bounded {
		// the per-row workers each narrow the lookup of the second clause by the row's
		// own anchor: "b"@[?t,] keeps the item anchored at the row's instant and
		// drops the one anchored an hour before it
		ts = nil
		for i := 0; i < n; i++ {
			at := anchors[0].Add(time.Duration(i) * 24 * time.Hour)
			u, f := mustNode("/u", string([]byte{'a' + byte(i)})), mustNode("/f", string([]byte{'a' + byte(i)}))
			pa, _ := predicate.NewTemporal("a", at)
			pb0, _ := predicate.NewTemporal("b", at)
			pb1, _ := predicate.NewTemporal("b", at.Add(-time.Hour))
			ts = append(ts, mustTriple(u, pa, triple.NewNodeObject(f)),
				mustTriple(f, pb0, triple.NewNodeObject(mustNode("/i", string([]byte{'a' + byte(i), '0'})))),
				mustTriple(f, pb1, triple.NewNodeObject(mustNode("/i", string([]byte{'a' + byte(i), '1'})))))
		}
		q = `select ?s, ?o, ?z from ?g where { ?s "a"@[?t] ?o . ?o "b"@[?t,] ?z } ;`
	}
	st, _ := newStoreWith("?g", ts)
	tbl, err := runBQL(st, q, verif.Param("CHAN", 0), verif.Param("BULK", 10))
	verif.Reach("executed")
	verif.Assert(err == nil, "C14/procs/query-succeeds")
	if err != nil {
		return
	}
	var want []string
	for i := 0; i < n; i++ {
		for j := 0; j < 2; j++ {
			if bounded && j == 1 {
				continue
			}
			want = append(want, "/u<"+string([]byte{'a' + byte(i)})+">\t/f<"+string([]byte{'a' + byte(i)})+">\t/i<"+string([]byte{'a' + byte(i), '0' + byte(j)})+">\t")
		}
	}
	verif.Assert(sameMultiset(rowKeys(tbl, []string{"?s", "?o", "?z"}), want), "C14/procs/same-rows-on-every-schedule")
}

// C14 (clause order, with keywords): the two-clause patterns of the C03
// extraction shapes - AS/ID/TYPE/AT aliases on every position, predicate
// windows, anchor bindings shared between clauses - executed as written and
// with the clauses exchanged return the same multiset of rows.  No reference
// evaluation is involved: the two executions are compared with each other.
func HarnessC14XOrder() {
	var idx []int
	for i, sh := range c03XShapes {
		if len(sh.cs) == 2 && sh.filter == "" && len(sh.global) == 0 && sh.graphs <= 1 {
			idx = append(idx, i)
		}
	}
	si := verif.Param("SHAPE", -1)
	if si < 0 {
		si = idx[verif.Choice("shape", len(idx))]
	}
	sh := c03XShapes[si]
	K := 1 + verif.Choice("k", verif.Param("K", 2))
	data := make([]*dspec, K)
	for i := range data {
		data[i] = symDataX("d", sh.temporal, sh.okinds, nil)
	}
	st, _ := newStoreWith("?g", dtriples(data))
	bs := qnames(xbindingsOf(sh.cs))
	swapped := []xclause{sh.cs[1], sh.cs[0]}
	t1, err1 := runBQL(st, xselectText(sh.cs, "?g", noWindow), 0, 10)
	t2, err2 := runBQL(st, xselectText(swapped, "?g", noWindow), 0, 10)
	verif.Reach("both-orders")
	// the planner defects recorded under C03 also make the result depend on the order
	cl := c03XClass(sh, data)
	if cl == "" {
		cl = c03XClass(xshape{cs: swapped}, data)
	}
	verif.Class(cl)
	verif.Assert((err1 == nil) == (err2 == nil), "C14/keyword-clause-order/same-verdict")
	if err1 != nil || err2 != nil {
		return
	}
	verif.Assert(sameMultiset(rowKeys(t1, bs), rowKeys(t2, bs)), "C14/keyword-clause-order/same-rows")
}
