package zzbql

import (
	verif "github.com/google/badwolf/internal/zzverif"
	"github.com/google/badwolf/storage/memory"
)

// c04State is the reference state of the store: the graphs that exist and what
// each is expected to hold.
type c04State struct {
	exists map[string]bool
	exp    map[string][]expected
	open   bool // the last statement failed during execution: contents are not determined
}

// solutions of `?s "a"@[] ?o` over the expected content of a graph: one per
// distinct expected triple with immutable predicate a.
func (s *c04State) inst(src string, pb byte) []expected {
	var out []expected
	es := s.exp[src]
	for i, e := range es {
		c := verif.And(e.cond, verif.And(e.v.pk == 0, e.v.pb == 'a'))
		for j := 0; j < i; j++ {
			c = verif.And(c, !verif.And(es[j].cond, es[j].v.eq(e.v)))
		}
		out = append(out, expected{tval{sb: e.v.sb, pb: pb, ob: e.v.ob, ok: e.v.ok}, c})
	}
	return out
}

// apply returns the text of statement kind k and updates the reference state;
// wantErr tells whether the statement must be rejected (and change nothing).
func (s *c04State) apply(k int) (q string, wantErr bool) {
	switch k {
	case 0:
		q = "insert data into ?g { " + c1Text + " } ;"
		s.exp["?g"] = append(s.exp["?g"], expected{c1, true})
	case 1:
		q = "delete data from ?g { " + c1Text + " } ;"
		s.exp["?g"] = without(s.exp["?g"], c1)
	case 2:
		q = "insert data into ?g, ?h { " + c2Text + " } ;"
		if !s.exists["?h"] {
			// an INSERT that names a missing graph fails during execution, not before it:
			// what it did to the graphs that exist is left open by the property
			s.open = true
			return q, true
		}
		s.exp["?g"] = append(s.exp["?g"], expected{c2, true})
		s.exp["?h"] = append(s.exp["?h"], expected{c2, true})
	case 3:
		q = "drop graph ?h ;"
		if !s.exists["?h"] {
			return q, true
		}
		s.exists["?h"] = false
		s.exp["?h"] = nil
	case 4:
		q = "create graph ?h ;"
		if s.exists["?h"] {
			return q, true
		}
		s.exists["?h"] = true
	case 5:
		q = "construct { ?s \"b\"@[] ?o } into ?h from ?g where { ?s \"a\"@[] ?o } ;"
		if !s.exists["?h"] {
			return q, true
		}
		s.exp["?h"] = append(s.exp["?h"], s.inst("?g", 'b')...)
	case 6:
		q = "deconstruct { ?s \"a\"@[] ?o } in ?g from ?g where { ?s \"a\"@[] ?o } ;"
		for _, e := range s.inst("?g", 'a') {
			var out []expected
			for _, x := range s.exp["?g"] {
				out = append(out, expected{x.v, verif.And(x.cond, !verif.And(e.cond, x.v.eq(e.v)))})
			}
			s.exp["?g"] = out
		}
	default:
		q = "construct { ?s \"a\"@[] ?o } into ?g from ?h where { ?s \"a\"@[] ?o } ;"
		if !s.exists["?h"] {
			return q, true
		}
		s.exp["?g"] = append(s.exp["?g"], s.inst("?h", 'a')...)
	}
	return q, false
}

// C04 (sequences): two statements executed one after the other against a store
// with two graphs of symbolic content: after each statement every graph holds
// what the statements so far say (the WHERE pattern of the second statement is
// evaluated over what the first one left), a rejected statement changes
// nothing, and the store lists exactly the graphs that exist.
func HarnessC04Sequence() {
	st := memory.NewStore()
	K := verif.Param("K", 1)
	state := &c04State{exists: map[string]bool{"?g": true, "?h": true}, exp: map[string][]expected{}}
	for _, name := range []string{"?g", "?h"} {
		g, err := st.NewGraph(ctx, name)
		verif.Assume(err == nil)
		n := verif.Choice(name+".n", K+1)
		var ds []*dspec
		for i := 0; i < n; i++ {
			ds = append(ds, symData(name, false))
		}
		g.AddTriples(ctx, dtriples(ds))
		state.exp[name] = pre(ds)
	}
	for step := 0; step < 2; step++ {
		k := verif.Choice("statement", 8)
		q, wantErr := state.apply(k)
		var err error
		if !noPanic("C04/sequence/no-panic", func() { _, err = runBQL(st, q, 0, verif.Param("BULK", 10)) }) {
			return
		}
		verif.Reach("executed")
		if wantErr {
			verif.Assert(err != nil, "C04/sequence/rejected-statement-reports-an-error")
		} else {
			if err != nil {
				verif.Observe("query", q)
				verif.Observe("error", err.Error())
			}
			verif.Assert(err == nil, "C04/sequence/statement-succeeds")
		}
		if state.open {
			return
		}
		ch := make(chan string, 8)
		st.GraphNames(ctx, ch)
		n := 0
		for range ch {
			n++
		}
		want := 0
		for _, name := range []string{"?g", "?h"} {
			if state.exists[name] {
				want++
				checkGraph(st, name, state.exp[name], "C04/sequence")
			}
		}
		verif.Assert(n == want, "C04/sequence/graph-set")
	}
}
