package zzbql

import (
	verif "github.com/google/badwolf/internal/zzverif"
	"github.com/google/badwolf/storage"
	"github.com/google/badwolf/storage/memory"
	"github.com/google/badwolf/triple"
	"github.com/google/badwolf/triple/predicate"
)

// tval is the value of a triple of the universe.
type tval struct {
	sb, pb, ob byte
	pk, pa, ok int // ok: 0 node, 1 text, 3 immutable predicate object, 4 temporal predicate object at anchors[oa]
	oa         int
}

func (d *dspec) tv() tval { return tval{sb: d.sb, pb: d.pb, ob: d.ob, pk: d.pk, pa: d.pa, ok: d.ok, oa: d.oa} }

func (a tval) eq(b tval) bool {
	if a.pk != b.pk || a.ok != b.ok || (a.pk == 1 && a.pa != b.pa) || (a.ok == 4 && a.oa != b.oa) {
		return false
	}
	return verif.And(a.sb == b.sb, verif.And(a.pb == b.pb, a.ob == b.ob))
}

// tvalOf reads the value of a stored triple back through the accessors.
func tvalOf(t *triple.Triple) (tval, bool) {
	var v tval
	s, p, o := t.Subject(), t.Predicate(), t.Object()
	if s.Type().String() != "/u" || len(s.ID().String()) != 1 || len(p.ID()) != 1 {
		return v, false
	}
	v.sb, v.pb = s.ID().String()[0], string(p.ID())[0]
	if p.Type() == predicate.Temporal {
		v.pk = 1
		ta, _ := p.TimeAnchor()
		v.pa = -1
		for i, a := range anchors {
			if ta.Equal(a) {
				v.pa = i
			}
		}
		if v.pa < 0 {
			return v, false
		}
	}
	if n, err := o.Node(); err == nil {
		if n.Type().String() != "/u" || len(n.ID().String()) != 1 {
			return v, false
		}
		v.ob = n.ID().String()[0]
		return v, true
	}
	if op, err := o.Predicate(); err == nil {
		if len(op.ID()) != 1 {
			return v, false
		}
		v.ob, v.ok = string(op.ID())[0], 3
		if op.Type() == predicate.Temporal {
			v.ok = 4
			ta, _ := op.TimeAnchor()
			v.oa = -1
			for i, a := range anchors {
				if ta.Equal(a) {
					v.oa = i
				}
			}
			if v.oa < 0 {
				return v, false
			}
		}
		return v, true
	}
	l, err := o.Literal()
	if err != nil {
		return v, false
	}
	txt, err := l.Text()
	if err != nil || len(txt) != 1 {
		return v, false
	}
	v.ok, v.ob = 1, txt[0]
	return v, true
}

type expected struct {
	v    tval
	cond bool
}

func graphListing(g storage.Graph) []*triple.Triple {
	ch := make(chan *triple.Triple, 64)
	g.Triples(ctx, storage.DefaultLookup, ch)
	var out []*triple.Triple
	for t := range ch {
		out = append(out, t)
	}
	return out
}

// checkGraph: the graph holds exactly {e.v | e.cond}, each triple once.
func checkGraph(st storage.Store, name string, exp []expected, id string) {
	g, err := st.Graph(ctx, name)
	verif.Assert(err == nil, id+"/graph-still-exists")
	if err != nil {
		return
	}
	lst := graphListing(g)
	firsts := make([]bool, len(exp))
	for i := range exp {
		f := exp[i].cond
		for j := 0; j < i; j++ {
			f = verif.And(f, !verif.And(exp[j].cond, exp[i].v.eq(exp[j].v)))
		}
		firsts[i] = f
	}
	verif.Assert(len(lst) == verif.Count(firsts...), id+"/holds-each-expected-triple-once")
	var got []tval
	for _, t := range lst {
		v, ok := tvalOf(t)
		verif.Assert(ok, id+"/only-universe-triples")
		if !ok {
			return
		}
		any := false
		for _, e := range exp {
			any = verif.Or(any, verif.And(e.cond, v.eq(e.v)))
		}
		verif.Assert(any, id+"/nothing-unexpected")
		got = append(got, v)
	}
	for _, e := range exp {
		found := false
		for _, v := range got {
			found = verif.Or(found, v.eq(e.v))
		}
		verif.Assert(verif.Implies(e.cond, found), id+"/nothing-missing")
	}
}

func pre(ds []*dspec) []expected {
	var out []expected
	for _, d := range ds {
		out = append(out, expected{d.tv(), true})
	}
	return out
}

func without(exp []expected, v tval) []expected {
	var out []expected
	for _, e := range exp {
		out = append(out, expected{e.v, verif.And(e.cond, !e.v.eq(v))})
	}
	return out
}

var (
	c1 = tval{sb: 'a', pb: 'a', ob: 'b'}
	c2 = tval{sb: 'b', pb: 'b', ob: 'a', ok: 1}
)

const (
	c1Text = `/u<a> "a"@[] /u<b>`
	c2Text = `/u<b> "b"@[] "a"^^type:text`
)

// C04: one data or graph statement against a store with two graphs of symbolic
// content: every graph afterwards holds exactly what the statement says.
func HarnessC04Statement() {
	st := memory.NewStore()
	K := verif.Param("K", 1)
	mkGraph := func(name string, K int) []*dspec {
		g, err := st.NewGraph(ctx, name)
		verif.Assume(err == nil)
		n := verif.Choice(name+".n", K+1)
		var ds []*dspec
		for i := 0; i < n; i++ {
			ds = append(ds, symData(name, false))
		}
		g.AddTriples(ctx, dtriples(ds))
		return ds
	}
	temporalG := verif.Param("CASE", -1) == 12 || verif.Param("CASE", -1) == 13
	mkGraphT := func(name string, K int) []*dspec {
		g, err := st.NewGraph(ctx, name)
		verif.Assume(err == nil)
		n := verif.Choice(name+".n", K+1)
		var ds []*dspec
		for i := 0; i < n; i++ {
			ds = append(ds, symDataX(name, true, []int{0}, nil))
		}
		g.AddTriples(ctx, dtriples(ds))
		return ds
	}
	var dg, dh []*dspec
	if temporalG {
		allTemporal = true
		dg, dh = mkGraphT("?g", K), mkGraph("?h", verif.Param("KH", K))
	} else {
		dg, dh = mkGraph("?g", K), mkGraph("?h", verif.Param("KH", K))
	}
	expG, expH := pre(dg), pre(dh)
	names := []string{"?g", "?h"}
	wantErr := false
	reified := false
	var q string
	// the WHERE pattern of the construct cases and its reference solutions over ?g
	pat := []qclause{{s: bS, p: cA, o: bO}}
	inst := func(pb byte) []expected {
		var out []expected
		for _, d := range dg {
			e := env{}
			cond := pat[0].matches(d, e)
			out = append(out, expected{tval{sb: d.sb, pb: pb, ob: d.ob, ok: d.ok}, cond})
		}
		return out
	}
	cs := verif.Param("CASE", -1)
	if cs < 0 {
		cs = verif.Choice("case", 15)
	}
	switch cs {
	case 0:
		q = "insert data into ?g { " + c1Text + " } ;"
		expG = append(expG, expected{c1, true})
	case 1:
		q = "insert data into ?g, ?h { " + c1Text + " . " + c2Text + " } ;"
		expG = append(expG, expected{c1, true}, expected{c2, true})
		expH = append(expH, expected{c1, true}, expected{c2, true})
	case 2:
		q = "delete data from ?g { " + c1Text + " } ;"
		expG = without(expG, c1)
	case 3:
		q = "delete data from ?g, ?h { " + c1Text + " . " + c2Text + " } ;"
		expG, expH = without(without(expG, c1), c2), without(without(expH, c1), c2)
	case 4:
		q = "create graph ?n ;"
		names = append(names, "?n")
	case 5:
		q = "drop graph ?h ;"
		names = names[:1]
	case 6:
		q = "construct { ?s \"b\"@[] ?o } into ?h from ?g where { ?s \"a\"@[] ?o } ;"
		expH = append(expH, inst('b')...)
	case 7:
		q = "deconstruct { ?s \"a\"@[] ?o } in ?h from ?g where { ?s \"a\"@[] ?o } ;"
		for _, e := range inst('a') {
			var out []expected
			for _, x := range expH {
				out = append(out, expected{x.v, verif.And(x.cond, !verif.And(e.cond, x.v.eq(e.v)))})
			}
			expH = out
		}
	case 8:
		q = "construct { ?s \"b\"@[] ?o } into ?zz from ?g where { ?s \"a\"@[] ?o } ;"
		wantErr = true
	case 10:
		// reification: per solution row the statement, the three reification
		// triples and the extra fact on one fresh blank node
		q = "construct { ?s \"b\"@[] ?o ; \"c\"@[] /u<a> } into ?h from ?g where { ?s \"a\"@[] ?o } ;"
		reified = true // (the statement itself is not added, only its reification)
	case 12:
		// a template predicate whose anchor is a binding: instantiated per row with that row's anchor
		q = "construct { ?s \"b\"@[?t] ?o } into ?h from ?g where { ?s \"a\"@[?t] ?o } ;"
		for _, d := range dg {
			expH = append(expH, expected{tval{sb: d.sb, pb: 'b', ob: d.ob, ok: d.ok, pk: 1, pa: d.pa}, verif.And(d.pk == 1, d.pb == 'a')})
		}
	case 13:
		// a template object that is a predicate with an anchor binding, next to a
		// template predicate with an anchor of its own (a constant one)
		q = "construct { ?s \"b\"@[" + anchors[1].Format(tfmt) + "] \"c\"@[?t] } into ?h from ?g where { ?s \"a\"@[?t] ?o } ;"
		for _, d := range dg {
			expH = append(expH, expected{tval{sb: d.sb, pb: 'b', pk: 1, pa: 1, ob: 'c', ok: 4, oa: d.pa}, verif.And(d.pk == 1, d.pb == 'a')})
		}
	case 14:
		// a template made of constants only: the one triple is added when the pattern
		// has at least one solution, and nothing otherwise
		q = "construct { /u<a> \"b\"@[] /u<b> } into ?h from ?g where { ?s \"a\"@[] ?o } ;"
		any := false
		for _, e := range inst('b') {
			any = verif.Or(any, e.cond)
		}
		expH = append(expH, expected{tval{sb: 'a', pb: 'b', ob: 'b', ok: 0}, any})
	case 11:
		// reification where rows differ only in a binding used after the ';': still
		// one fresh blank node (with its three reification triples and its extra
		// fact) per solution row
		q = "construct { ?s \"b\"@[] /u<a> ; \"c\"@[] ?o } into ?h from ?g where { ?s \"a\"@[] ?o } ;"
		reified = true
	default:
		q = "create graph ?g ;"
		wantErr = true
	}
	var err error
	if !noPanic("C04/no-panic", func() { _, err = runBQL(st, q, 0, verif.Param("BULK", 10)) }) {
		return
	}
	verif.Reach("executed")
	if wantErr {
		verif.Assert(err != nil, "C04/rejected-statement-reports-an-error")
	} else {
		if err != nil {
			verif.Observe("query", q)
			verif.Observe("error", err.Error())
		}
		verif.Assert(err == nil, "C04/statement-succeeds")
	}
	// the store lists exactly the expected graphs
	ch := make(chan string, 8)
	st.GraphNames(ctx, ch)
	var got []string
	for n := range ch {
		got = append(got, n)
	}
	verif.Assert(len(got) == len(names), "C04/graph-set")
	for _, n := range names {
		found := false
		for _, x := range got {
			if x == n {
				found = true
			}
		}
		verif.Assert(found, "C04/graph-set")
	}
	checkGraph(st, "?g", expG, "C04/target")
	if reified {
		// solutions of the WHERE pattern: stored triples of ?g (identity classes) matching it
		var sol []bool
		for i, d := range dg {
			e := env{}
			c := pat[0].matches(d, e)
			for j := 0; j < i; j++ {
				c = verif.And(c, !d.eq(dg[j]))
			}
			sol = append(sol, c)
		}
		checkReified(st, "?h", expH, verif.Count(sol...))
	} else if len(names) > 1 && names[1] == "?h" {
		checkGraph(st, "?h", expH, "C04/other")
	}
	if len(names) > 2 {
		checkGraph(st, "?n", nil, "C04/created-graph-is-empty")
	}
}

// checkReified: graph name holds the universe triples exp plus, for each of
// the rows solutions, one blank node carrying exactly _subject, _predicate,
// _object and the extra fact "c"; blank nodes are pairwise distinct.
func checkReified(st storage.Store, name string, exp []expected, rows int) {
	g, err := st.Graph(ctx, name)
	verif.Assert(err == nil, "C04/reify/graph-still-exists")
	if err != nil {
		return
	}
	byBlank := map[string][]string{}
	var order []string
	var plain []*triple.Triple
	for _, t := range graphListing(g) {
		if t.Subject().Type().String() == "/_" {
			id := t.Subject().ID().String()
			if _, ok := byBlank[id]; !ok {
				order = append(order, id)
			}
			byBlank[id] = append(byBlank[id], string(t.Predicate().ID()))
			continue
		}
		plain = append(plain, t)
	}
	if verif.Param("SHOW", 0) == 1 {
		for _, t := range graphListing(g) {
			verif.Observe("h", t.String())
		}
	}
	verif.Assert(len(order) == rows, "C04/reify/one-blank-node-per-row")
	for _, id := range order {
		ps := byBlank[id]
		has := func(p string) bool {
			n := 0
			for _, x := range ps {
				if x == p {
					n++
				}
			}
			return n == 1
		}
		verif.Assert(len(ps) == 4 && has("_subject") && has("_predicate") && has("_object") && has("c"), "C04/reify/blank-node-carries-exactly-the-reification-and-the-extra-fact")
	}
	// the non-blank part is exactly the expected universe triples
	firsts := make([]bool, len(exp))
	for i := range exp {
		f := exp[i].cond
		for j := 0; j < i; j++ {
			f = verif.And(f, !verif.And(exp[j].cond, exp[i].v.eq(exp[j].v)))
		}
		firsts[i] = f
	}
	verif.Assert(len(plain) == verif.Count(firsts...), "C04/reify/plain-triples-each-once")
	for _, t := range plain {
		v, ok := tvalOf(t)
		verif.Assert(ok, "C04/reify/only-universe-triples")
		if !ok {
			return
		}
		any := false
		for _, e := range exp {
			any = verif.Or(any, verif.And(e.cond, v.eq(e.v)))
		}
		verif.Assert(any, "C04/reify/nothing-unexpected")
	}
}
