package zzbql

import (
	"time"

	verif "github.com/google/badwolf/internal/zzverif"
	"github.com/google/badwolf/bql/semantic"
	"github.com/google/badwolf/bql/table"
	"github.com/google/badwolf/triple/literal"
	"github.com/google/badwolf/triple/node"
	"github.com/google/badwolf/triple/predicate"
)

func textCell(s string) *table.Cell {
	l, err := literal.DefaultBuilder().Build(literal.Text, s)
	if err != nil {
		panic(err)
	}
	return &table.Cell{L: l}
}

var c13Ops = []semantic.OP{semantic.LT, semantic.GT, semantic.EQ}

func holds(op semantic.OP, lt, eq bool) bool {
	switch op {
	case semantic.LT:
		return lt
	case semantic.GT:
		return verif.And(!lt, !eq)
	}
	return eq
}

// C13 (b): int64 cell against an int64 constant: numeric order over the full range.
func HarnessC13IntLeaf() {
	// the constant comes from a pool (it is parsed from text), the cell is symbolic over the full range
	pool := []int64{0, 1, -1, -2, 10, -10, 9223372036854775807, -9223372036854775808}
	x, c := verif.Int64("x"), pool[verif.Choice("c", len(pool))]
	op := c13Ops[verif.Choice("op", 3)]
	if x < 0 && c < 0 {
		verif.Class("both-negative")
	}
	ev, err := semantic.NewEvaluationExpressionForLiteral(op, "?x", intCell(c).L.String())
	verif.Assume(err == nil)
	var got bool
	var eerr error
	if !noPanic("C13/int-leaf/no-panic", func() { got, eerr = ev.Evaluate(table.Row{"?x": intCell(x)}) }) {
		return
	}
	verif.Reach("evaluated")
	verif.Assert(eerr == nil, "C13/int-leaf/evaluates")
	verif.Assert(got == holds(op, x < c, x == c), "C13/int-leaf/numeric-comparison")
}

// C13 (b'): two bindings of one row against each other: int64 cells over the
// full range compare numerically.
func HarnessC13IntPair() {
	x, y := verif.Int64("x"), verif.Int64("y")
	if verif.Param("FULL", 0) == 0 {
		// quick tier: up to four digits each (numbers of different digit counts included)
		verif.Assume(verif.And(verif.And(x > -10000, x < 10000), verif.And(y > -10000, y < 10000)))
	}
	op := c13Ops[verif.Choice("op", 3)]
	if x < 0 && y < 0 {
		verif.Class("both-negative")
	}
	ev, err := semantic.NewEvaluationExpression(op, "?x", "?y")
	verif.Assume(err == nil)
	var got bool
	var eerr error
	if !noPanic("C13/int-pair/no-panic", func() { got, eerr = ev.Evaluate(table.Row{"?x": intCell(x), "?y": intCell(y)}) }) {
		return
	}
	verif.Reach("evaluated")
	verif.Assert(eerr == nil, "C13/int-pair/evaluates")
	verif.Assert(got == holds(op, x < y, x == y), "C13/int-leaf/numeric-comparison")
}

// C13 (b''): two bindings of one row: a text literal against an extracted
// id/type string (a string cell) compares by the bytes of the text.
func HarnessC13TextPair() {
	L := verif.Param("L", 2)
	x := verif.String("x", 1+verif.Choice("lx", L))
	y := verif.String("y", 1+verif.Choice("ly", L))
	for _, s := range []string{x, y} {
		for i := 0; i < len(s); i++ {
			verif.Assume(verif.And(verif.And(s[i] > '"', s[i] < 0x7f), s[i] != '\\'))
		}
	}
	op := c13Ops[verif.Choice("op", 3)]
	cells := [][2]*table.Cell{{textCell(x), strCell(y)}, {strCell(x), textCell(y)}, {strCell(x), strCell(y)}}[verif.Choice("cells", 3)]
	ev, err := semantic.NewEvaluationExpression(op, "?x", "?y")
	verif.Assume(err == nil)
	var got bool
	var eerr error
	if !noPanic("C13/text-pair/no-panic", func() { got, eerr = ev.Evaluate(table.Row{"?x": cells[0], "?y": cells[1]}) }) {
		return
	}
	verif.Reach("evaluated")
	verif.Assert(eerr == nil, "C13/text-pair/evaluates")
	if len(x) != len(y) {
		// prefixes are ordered through the closing quote (recorded under the text leaf)
		return
	}
	verif.Assert(got == holds(op, x < y, x == y), "C13/text-pair/lexicographic-comparison")
}

// C13 (b): text/string cells against a text constant: bytewise order.
func HarnessC13TextLeaf() {
	L := verif.Param("L", 2)
	x := verif.String("x", verif.Choice("lx", L+1))
	c := verif.String("c", verif.Choice("lc", L+1))
	for _, s := range []string{x, c} {
		for i := 0; i < len(s); i++ {
			// printable ASCII without the quote (the literal is handed over as text)
			verif.Assume(verif.And(verif.And(s[i] > ' ', s[i] < 0x7f), s[i] != '"'))
		}
	}
	op := c13Ops[verif.Choice("op", 3)]
	// the comparison is made on the printed forms, closing quote included: when
	// one text is a proper prefix of the other and the longer one continues
	// with a byte below '"' (only '!' here), the order comes out reversed
	short, long := x, c
	if len(c) < len(x) {
		short, long = c, x
	}
	if len(short) < len(long) && long[:len(short)] == short && long[len(short)] < '"' {
		verif.Class("text-prefix-followed-by-byte-below-quote")
	}
	cell := textCell(x)
	if verif.Choice("stringcell", 2) == 1 {
		cell = strCell(x)
	}
	ev, err := semantic.NewEvaluationExpressionForLiteral(op, "?x", textCell(c).L.String())
	verif.Assume(err == nil)
	got, eerr := ev.Evaluate(table.Row{"?x": cell})
	verif.Reach("evaluated")
	verif.Assert(eerr == nil, "C13/text-leaf/evaluates")
	verif.Assert(got == holds(op, x < c, x == c), "C13/text-leaf/lexicographic-comparison")
}

// C13 (b): a value compared with a constant of another kind never holds: the
// result is false or an error, never true.
func HarnessC13KindMismatch() {
	n, _ := node.NewNodeFromStrings("/t", "a")
	p, _ := predicate.NewImmutable("p")
	tm := time.Date(2020, 1, 1, 12, 0, 0, 0, time.UTC)
	xb := verif.Byte("x")
	verif.Assume(verif.And(xb >= 'a', xb <= 'z'))
	cells := []*table.Cell{intCell(verif.Int64("xi")), textCell(string([]byte{xb})), {N: n}, {P: p}, {T: &tm}}
	kind := verif.Choice("cell", len(cells))
	op := c13Ops[verif.Choice("op", 3)]
	ck := verif.Choice("const", 5)
	var ev semantic.Evaluator
	var err error
	switch ck {
	case 0:
		ev, err = semantic.NewEvaluationExpressionForLiteral(op, "?x", "\"7\"^^type:int64")
	case 1:
		ev, err = semantic.NewEvaluationExpressionForLiteral(op, "?x", "\"a\"^^type:text")
	case 2:
		ev, err = semantic.NewEvaluationExpressionForNodeLiteral(op, "?x", "/t<a>")
	case 3:
		ev, err = semantic.NewEvaluationExpressionForPredicateLiteral(op, "?x", "\"p\"@[]")
	default:
		ev, err = semantic.NewEvaluationExpressionForTimeLiteral(op, "?x", "2020-01-01T12:00:00Z")
	}
	if err != nil {
		return // rejected when built: fine
	}
	if kind == ck {
		return // same kind: the other harnesses
	}
	var got bool
	var eerr error
	if !noPanic("C13/kind-mismatch/no-panic", func() { got, eerr = ev.Evaluate(table.Row{"?x": cells[kind]}) }) {
		return
	}
	verif.Reach("evaluated")
	verif.Assert(eerr != nil || !got, "C13/kind-mismatch/never-true")
}

// C13 (b): time cells against a time constant: instants (pool, enumerated).
func HarnessC13TimeLeaf() {
	i, j := verif.Choice("i", len(c12Times)), verif.Choice("j", len(c12Times))
	x, c := c12Times[i], c12Times[j]
	op := c13Ops[verif.Choice("op", 3)]
	ev, err := semantic.NewEvaluationExpressionForTimeLiteral(op, "?x", c.Format(time.RFC3339Nano))
	verif.Assume(err == nil)
	got, eerr := ev.Evaluate(table.Row{"?x": &table.Cell{T: &x}})
	verif.Reach("evaluated")
	verif.Assert(eerr == nil, "C13/time-leaf/evaluates")
	verif.Assert(got == holds(op, x.Before(c), x.Equal(c)), "C13/time-leaf/instant-comparison")
}

// C13 (a): boolean structure: NOT / AND / OR over two leaves, on a symbolic
// row, must be truth-functional (the leaves are comparisons of 1-byte texts).
func HarnessC13Boolean() {
	a, b := verif.Byte("a"), verif.Byte("b")
	verif.Assume(verif.And(verif.And(a >= 'a', a <= 'z'), verif.And(b >= 'a', b <= 'z')))
	row := table.Row{"?a": textCell(string([]byte{a})), "?b": textCell(string([]byte{b}))}
	// each leaf: a comparison (<, >, =) of ?a with ?b, or of ?a / ?b with the text constant "m"
	leaf := func(name string) (semantic.Evaluator, bool, error) {
		op := c13Ops[verif.Choice(name+".op", 3)]
		switch verif.Choice(name+".kind", 3) {
		case 0:
			e, err := semantic.NewEvaluationExpression(op, "?a", "?b")
			return e, holds(op, a < b, a == b), err
		case 1:
			e, err := semantic.NewEvaluationExpressionForLiteral(op, "?a", "\"m\"^^type:text")
			return e, holds(op, a < 'm', a == 'm'), err
		default:
			e, err := semantic.NewEvaluationExpressionForLiteral(op, "?b", "\"m\"^^type:text")
			return e, holds(op, b < 'm', b == 'm'), err
		}
	}
	l1, v1, e1 := leaf("l1")
	l2, v2, e2 := leaf("l2")
	verif.Assume(e1 == nil && e2 == nil)
	shape := verif.Choice("shape", 6)
	var ev semantic.Evaluator
	var err error
	var want bool
	mk := func(op semantic.OP, x, y semantic.Evaluator) semantic.Evaluator {
		e, er := semantic.NewBinaryBooleanExpression(op, x, y)
		if er != nil {
			err = er
		}
		return e
	}
	not := func(x semantic.Evaluator) semantic.Evaluator {
		e, er := semantic.NewUnaryBooleanExpression(semantic.NOT, x)
		if er != nil {
			err = er
		}
		return e
	}
	switch shape {
	case 0:
		ev, want = mk(semantic.AND, l1, l2), verif.And(v1, v2)
	case 1:
		ev, want = mk(semantic.OR, l1, l2), verif.Or(v1, v2)
	case 2:
		ev, want = not(l1), !v1
	case 3:
		ev, want = mk(semantic.OR, not(l1), mk(semantic.AND, l2, not(l2))), !v1
	case 4:
		ev, want = not(mk(semantic.AND, l1, not(l2))), verif.Or(!v1, v2)
	default:
		ev, want = mk(semantic.AND, mk(semantic.OR, l1, l2), not(mk(semantic.AND, l1, l2))), verif.And(verif.Or(v1, v2), !verif.And(v1, v2))
	}
	verif.Assume(err == nil)
	got, eerr := ev.Evaluate(row)
	verif.Reach("evaluated")
	verif.Assert(eerr == nil, "C13/boolean/evaluates")
	verif.Assert(got == want, "C13/boolean/truth-functional")
}
