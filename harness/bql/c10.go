package zzbql

import (
	verif "github.com/google/badwolf/internal/zzverif"
	"github.com/google/badwolf/bql/table"
)

func idOf(c *table.Cell) int {
	if c == nil || c.S == nil || len(*c.S) != 1 {
		return -1
	}
	return int((*c.S)[0] - '0')
}

// C10 (a): Table.LeftOptionalJoin on two symbolic tables sharing SHARED
// bindings: every left row appears once per agreeing right row, or exactly once
// NULL-extended when no right row agrees; nothing else appears.
func HarnessC10Join() {
	n1 := 1 + verif.Choice("rows1", verif.Param("ROWS", 2))
	n2 := verif.Choice("rows2", verif.Param("ROWS", 2)+1)
	shared := verif.Param("SHARED", 1)
	kinds := 1 + verif.Param("KINDS", 0)
	bs1 := []string{"?ida", "?k1", "?k2"}
	bs2 := []string{"?idb", "?k1", "?k2"}[:1+shared]
	if shared == 0 {
		bs1 = bs1[:1]
	} else {
		bs1 = bs1[:1+shared]
	}
	type keys struct{ k [2]gval }
	mkRow := func(id string, idv int, nk int) (table.Row, keys) {
		var ks keys
		r := table.Row{id: strCell(string([]byte{'0' + byte(idv)}))}
		for c := 0; c < nk; c++ {
			ks.k[c] = gval{verif.Choice("kind", kinds), verif.Byte("k")}
			verif.Assume(verif.Or(ks.k[c].b == 'a', ks.k[c].b == 'b'))
			r[[]string{"?k1", "?k2"}[c]] = ks.k[c].cell()
		}
		return r, ks
	}
	rows1, rows2 := make([]table.Row, n1), make([]table.Row, n2)
	k1, k2 := make([]keys, n1), make([]keys, n2)
	mixed := false
	for i := range rows1 {
		rows1[i], k1[i] = mkRow("?ida", i, shared)
	}
	for j := range rows2 {
		rows2[j], k2[j] = mkRow("?idb", j, shared)
	}
	for c := 0; c < shared; c++ {
		for _, k := range append(append([]keys{}, k1...), k2...) {
			if k.k[c].kind != k1[0].k[c].kind {
				mixed = true
			}
		}
	}
	if mixed {
		verif.Class("mixed-kinds-in-join-column")
	}
	t, t2 := mkTable(bs1, rows1), mkTable(bs2, rows2)
	if n2 == 0 {
		// an empty right table still carries its bindings
		t2 = mkTable(bs2, nil)
	}
	var err error
	if !noPanic("C10/join/no-panic", func() { err = t.LeftOptionalJoin(t2) }) {
		return
	}
	verif.Reach("joined")
	verif.Assert(err == nil, "C10/join/succeeds")
	agree := func(i, j int) bool {
		r := true
		for c := 0; c < shared; c++ {
			r = verif.And(r, k1[i].k[c].eq(k2[j].k[c]))
		}
		return r
	}
	present := make([][]bool, n1)
	nullExt := make([]bool, n1)
	for i := range present {
		present[i] = make([]bool, n2)
	}
	for x := 0; x < t.NumRows(); x++ {
		r, _ := t.Row(x)
		i, j := idOf(r["?ida"]), idOf(r["?idb"])
		verif.Assert(i >= 0 && i < n1, "C10/join/row-comes-from-a-left-row")
		if i < 0 || i >= n1 {
			return
		}
		if j < 0 {
			verif.Assert(!nullExt[i], "C10/join/null-extended-at-most-once")
			nullExt[i] = true
			continue
		}
		verif.Assert(j < n2 && !present[i][j], "C10/join/each-match-once")
		if j >= n2 {
			return
		}
		present[i][j] = true
		verif.Assert(agree(i, j), "C10/join/joined-rows-agree-on-shared-bindings")
	}
	for i := 0; i < n1; i++ {
		any := false
		for j := 0; j < n2; j++ {
			if !present[i][j] {
				verif.Assert(!agree(i, j), "C10/join/every-agreeing-match-present")
			}
			any = verif.Or(any, agree(i, j))
		}
		if nullExt[i] {
			verif.Assert(!any, "C10/join/null-extension-only-without-match")
		} else {
			verif.Assert(any, "C10/join/left-row-never-dropped")
		}
	}
}
