package zzbql

import (
	verif "github.com/google/badwolf/internal/zzverif"
	"github.com/google/badwolf/bql/table"
	"github.com/google/badwolf/triple/node"
)

type gval struct {
	kind int // 0 string cell, 1 text literal, 2 node
	b    byte
}

func (g gval) cell() *table.Cell {
	switch g.kind {
	case 0:
		return strCell(string([]byte{g.b}))
	case 1:
		return textCell(string([]byte{g.b}))
	}
	n, err := node.NewNodeFromStrings("/t", string([]byte{g.b}))
	if err != nil {
		panic(err)
	}
	return &table.Cell{N: n}
}

func (g gval) eq(o gval) bool { return g.kind == o.kind && g.b == o.b }

func cellGval(c *table.Cell) (gval, bool) {
	switch {
	case c == nil:
		return gval{}, false
	case c.S != nil && len(*c.S) == 1:
		return gval{0, (*c.S)[0]}, true
	case c.L != nil:
		t, err := c.L.Text()
		if err == nil && len(t) == 1 {
			return gval{1, t[0]}, true
		}
	case c.N != nil && len(c.N.ID().String()) == 1:
		return gval{2, c.N.ID().String()[0]}, true
	}
	return gval{}, false
}

// C11 (a): Table.Reduce with count, count distinct and sum: one output row per
// distinct grouping value (kind and content), with the right aggregates.
func HarnessC11Reduce() {
	n := 1 + verif.Choice("rows", verif.Param("ROWS", 3))
	kinds := 1 + verif.Param("KINDS", 1) // number of cell kinds that may mix in the grouping column
	gs := make([]gval, n)
	vs := make([]int64, n)
	rows := make([]table.Row, n)
	mixed := false
	for i := range gs {
		gs[i] = gval{verif.Choice("kind", kinds), verif.Byte("g")}
		verif.Assume(verif.Or(gs[i].b == 'a', gs[i].b == 'b'))
		vs[i] = verif.Int64("v")
		verif.Assume(verif.And(vs[i] >= -3, vs[i] <= 3))
		rows[i] = table.Row{"?g": gs[i].cell(), "?v": intCell(vs[i])}
		if gs[i].kind != gs[0].kind {
			mixed = true
		}
	}
	if mixed {
		verif.Class("mixed-kinds-in-grouping-column")
	}
	t := mkTable([]string{"?g", "?v"}, rows)
	aaps := []table.AliasAccPair{
		{InAlias: "?g", OutAlias: "?g"},
		{InAlias: "?v", OutAlias: "?count", Acc: table.NewCountAccumulator()},
		{InAlias: "?v", OutAlias: "?distinct", Acc: table.NewCountDistinctAccumulator()},
		{InAlias: "?v", OutAlias: "?sum", Acc: table.NewSumInt64LiteralAccumulator(0)},
	}
	var err error
	if !noPanic("C11/reduce/no-panic", func() { err = t.Reduce(sortCfg([]string{"?g"}, []bool{false}), aaps) }) {
		return
	}
	verif.Reach("reduced")
	verif.Assert(err == nil, "C11/reduce/succeeds")
	if err != nil {
		return
	}
	// number of groups: rows that are the first of their value
	firsts := make([]bool, n)
	for i := range gs {
		f := true
		for j := 0; j < i; j++ {
			f = verif.And(f, !gs[i].eq(gs[j]))
		}
		firsts[i] = f
	}
	// every distinct grouping value has a row of its own: two values are never
	// merged into one group (the recorded defect only ever splits a group)
	verif.Class("")
	verif.Assert(t.NumRows() >= verif.Count(firsts...), "C11/reduce/no-two-groups-merged")
	for i := range gs {
		has := false
		for k := 0; k < t.NumRows(); k++ {
			r, _ := t.Row(k)
			if g, ok := cellGval(r["?g"]); ok {
				has = verif.Or(has, g.eq(gs[i]))
			}
		}
		verif.Assert(has, "C11/reduce/every-group-value-has-a-row")
	}
	if mixed {
		verif.Class("mixed-kinds-in-grouping-column")
	}
	verif.Assert(t.NumRows() == verif.Count(firsts...), "C11/reduce/one-row-per-group")
	for k := 0; k < t.NumRows(); k++ {
		r, _ := t.Row(k)
		g, ok := cellGval(r["?g"])
		verif.Assert(ok, "C11/reduce/group-value-preserved")
		if !ok {
			return
		}
		member := make([]bool, n)
		var sum int64
		for i := range gs {
			member[i] = g.eq(gs[i])
			if member[i] {
				sum += vs[i]
			}
		}
		dist := make([]bool, n)
		for i := range gs {
			d := member[i]
			for j := 0; j < i; j++ {
				d = verif.And(d, !verif.And(member[j], vs[j] == vs[i]))
			}
			dist[i] = d
		}
		cnt, e1 := r["?count"].L.Int64()
		dc, e2 := r["?distinct"].L.Int64()
		sm, e3 := r["?sum"].L.Int64()
		verif.Assert(e1 == nil && e2 == nil && e3 == nil, "C11/reduce/aggregates-are-int64")
		verif.Assert(cnt == int64(verif.Count(member...)), "C11/reduce/count")
		verif.Assert(dc == int64(verif.Count(dist...)), "C11/reduce/count-distinct")
		verif.Assert(sm == sum, "C11/reduce/sum")
	}
}
