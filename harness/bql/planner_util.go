package zzbql

import (
	"context"

	"github.com/google/badwolf/bql/grammar"
	"github.com/google/badwolf/bql/planner"
	"github.com/google/badwolf/bql/semantic"
	"github.com/google/badwolf/bql/table"
	"github.com/google/badwolf/storage"
	"github.com/google/badwolf/storage/memory"
	"github.com/google/badwolf/triple"
	"github.com/google/badwolf/triple/literal"
	"github.com/google/badwolf/triple/node"
	"github.com/google/badwolf/triple/predicate"
)

var ctx = context.Background()

// runBQL parses and executes one statement against st.
func runBQL(st storage.Store, text string, chanSize, bulkSize int) (*table.Table, error) {
	p, err := grammar.NewParser(grammar.SemanticBQL())
	if err != nil {
		return nil, err
	}
	stm := &semantic.Statement{}
	if err := p.Parse(grammar.NewLLk(text, 1), stm); err != nil {
		return nil, err
	}
	pln, err := planner.New(ctx, st, stm, chanSize, bulkSize, nil)
	if err != nil {
		return nil, err
	}
	return pln.Execute(ctx)
}

func mustNode(t, id string) *node.Node {
	n, err := node.NewNodeFromStrings(t, id)
	if err != nil {
		panic(err)
	}
	return n
}

func mustImmutable(id string) *predicate.Predicate {
	p, err := predicate.NewImmutable(id)
	if err != nil {
		panic(err)
	}
	return p
}

func mustTriple(s *node.Node, p *predicate.Predicate, o *triple.Object) *triple.Triple {
	t, err := triple.New(s, p, o)
	if err != nil {
		panic(err)
	}
	return t
}

func textObj(s string) *triple.Object {
	l, err := literal.DefaultBuilder().Build(literal.Text, s)
	if err != nil {
		panic(err)
	}
	return triple.NewLiteralObject(l)
}

func newStoreWith(name string, ts []*triple.Triple) (storage.Store, storage.Graph) {
	st := memory.NewStore()
	g, err := st.NewGraph(ctx, name)
	if err != nil {
		panic(err)
	}
	if len(ts) > 0 {
		if err := g.AddTriples(ctx, ts); err != nil {
			panic(err)
		}
	}
	return st, g
}
