package zzbql

import (
	verif "github.com/google/badwolf/internal/zzverif"
	"github.com/google/badwolf/bql/table"
)

// End-to-end checks of the tail of the SELECT pipeline (projection with
// aliases, GROUP BY with aggregates, ORDER BY, HAVING, LIMIT) through lexer,
// parser, hooks, planner and memory driver, against a reference evaluation of
// the same query over the symbolic data.
//
// The reference is written as ordinary Go over the symbolic values: which
// assignments are solutions, which values coincide and how they compare are
// branches of the harness, each decided by the solver under the path
// condition the real pipeline has accumulated.

type proj struct {
	binding, alias, op string // op: "", "count", "sum"
	distinct           bool
}

func (p proj) out() string {
	if p.alias != "" {
		return p.alias
	}
	return p.binding
}

type ordKey struct {
	binding string
	desc    bool
}

type rrow map[string]val

type pshape struct {
	cs        []xclause
	okinds    []int
	temporal  bool
	sel       []proj
	groupBy   []string
	order     []ordKey
	having    string
	havingRef func(r rrow) bool
	limit     int // -1 = none
	prop      string
	aset      []int // anchors to draw from (nil = the two base anchors); all triples temporal when set
	global    window // global time bound (after HAVING, before LIMIT); zero value {0,0} is never used: see hasGlobal
	hasGlobal bool
	orderText string // the ORDER BY clause as written, when it is not the plain rendering of order (repeated keys)
}

func (sh pshape) text() string {
	q := "select "
	for i, p := range sh.sel {
		if i > 0 {
			q += ", "
		}
		switch {
		case p.op == "count" && p.distinct:
			q += "count(distinct ?" + p.binding + ")"
		case p.op != "":
			q += p.op + "(?" + p.binding + ")"
		default:
			q += "?" + p.binding
		}
		if p.alias != "" {
			q += " as ?" + p.alias
		}
	}
	q += " from ?g where { "
	for i, c := range sh.cs {
		if i > 0 {
			q += " . "
		}
		q += c.text()
	}
	q += " }"
	for i, g := range sh.groupBy {
		if i == 0 {
			q += " group by "
		} else {
			q += ", "
		}
		q += "?" + g
	}
	if sh.orderText != "" {
		q += " " + sh.orderText
	}
	for i, o := range sh.order {
		if sh.orderText != "" {
			break
		}
		if i == 0 {
			q += " order by "
		} else {
			q += ", "
		}
		q += "?" + o.binding
		if o.desc {
			q += " desc"
		} else {
			q += " asc"
		}
	}
	if sh.having != "" {
		q += " having " + sh.having
	}
	if sh.hasGlobal {
		q += sh.global.text()
	}
	if sh.limit >= 0 {
		q += " limit \"" + string([]byte{'0' + byte(sh.limit)}) + "\"^^type:int64"
	}
	return q + " ;"
}

// decide turns a symbolic condition into a branch of the harness.
func decide(c bool) bool {
	if c {
		return true
	}
	return false
}

// vless: a sorts strictly before b (values of one kind).
func vless(a, b val) bool {
	switch a.kind {
	case 3:
		return anchors[a.pa].Before(anchors[b.pa])
	case 6:
		return a.i < b.i
	case 5, 7:
		return false
	}
	return a.b < b.b
}

func rowEqRef(r table.Row, ref rrow) bool {
	ok := true
	for name, v := range ref {
		ok = verif.And(ok, cellIs(r["?"+name], v))
	}
	return ok
}

func refEq(a, b rrow) bool {
	ok := true
	for name, v := range a {
		ok = verif.And(ok, v.eq(b[name]))
	}
	return ok
}

// reference evaluates the tail of the pipeline over the decided solutions.
func (sh pshape) reference(sols []env) []rrow {
	var rows []rrow
	if len(sh.groupBy) == 0 {
		for _, e := range sols {
			r := rrow{}
			for _, p := range sh.sel {
				r[p.out()] = e[p.binding]
			}
			rows = append(rows, r)
		}
	} else {
		var groups [][]env
		for _, e := range sols {
			placed := false
			for gi, g := range groups {
				same := true
				for _, k := range sh.groupBy {
					same = verif.And(same, e[k].eq(g[0][k]))
				}
				if decide(same) {
					groups[gi] = append(g, e)
					placed = true
					break
				}
			}
			if !placed {
				groups = append(groups, []env{e})
			}
		}
		for _, g := range groups {
			r := rrow{}
			for _, p := range sh.sel {
				switch {
				case p.op == "count" && !p.distinct:
					r[p.out()] = val{kind: 6, i: int64(len(g))}
				case p.op == "count":
					var seen []val
					for _, e := range g {
						dup := false
						for _, s := range seen {
							if decide(s.eq(e[p.binding])) {
								dup = true
								break
							}
						}
						if !dup {
							seen = append(seen, e[p.binding])
						}
					}
					r[p.out()] = val{kind: 6, i: int64(len(seen))}
				case p.op == "sum":
					var sum int64
					for _, e := range g {
						sum += e[p.binding].i
					}
					r[p.out()] = val{kind: 6, i: sum}
				default:
					r[p.out()] = g[0][p.binding]
				}
			}
			rows = append(rows, r)
		}
	}
	// ORDER BY (insertion sort over decided comparisons; only the key sequence
	// of the result is compared, so ties need no particular order)
	if len(sh.order) > 0 {
		before := func(a, b rrow) bool {
			for _, k := range sh.order {
				x, y := a[k.binding], b[k.binding]
				if k.desc {
					x, y = y, x
				}
				if decide(vless(x, y)) {
					return true
				}
				if decide(vless(y, x)) {
					return false
				}
			}
			return false
		}
		for i := 1; i < len(rows); i++ {
			for j := i; j > 0 && before(rows[j], rows[j-1]); j-- {
				rows[j], rows[j-1] = rows[j-1], rows[j]
			}
		}
	}
	if sh.havingRef != nil {
		var kept []rrow
		for _, r := range rows {
			if decide(sh.havingRef(r)) {
				kept = append(kept, r)
			}
		}
		rows = kept
	}
	return rows
}

var (
	clSAO  = xq(qclause{s: bS, p: cA, o: bO})
	clSAOT = xclause{qclause: qclause{s: bS, p: cA, o: bO, at: "t"}, lo: -1, hi: -1}
	clSIDO = xclause{qclause: qclause{s: bS, p: cA, o: bO}, sID: "i", lo: -1, hi: -1}
	clOAZ  = xq(qclause{s: bO, p: cA, o: bZ})
	pS, pO = proj{binding: "s"}, proj{binding: "o"}
)

var pipeShapes = []pshape{
	// ---- C12: ORDER BY / LIMIT
	0: {cs: []xclause{clSAO}, okinds: []int{0}, sel: []proj{pS, pO}, order: []ordKey{{"s", false}, {"o", true}}, limit: -1, prop: "C12"},
	1: {cs: []xclause{clSAO}, okinds: []int{2}, sel: []proj{pS, pO}, order: []ordKey{{"o", true}}, limit: -1, prop: "C12"},
	2: {cs: []xclause{clSAO}, okinds: []int{0}, sel: []proj{pS, pO}, order: []ordKey{{"o", false}}, limit: 1, prop: "C12"},
	3: {cs: []xclause{clSAO}, okinds: []int{0, 1}, sel: []proj{pS, pO}, limit: 1, prop: "C12"},
	4: {cs: []xclause{clSAO, clOAZ}, okinds: []int{0}, sel: []proj{pS, pO, {binding: "z"}}, limit: 1, prop: "C12"},
	5: {cs: []xclause{clSAOT}, okinds: []int{0}, temporal: true, sel: []proj{pS, {binding: "t"}}, order: []ordKey{{"t", true}}, limit: -1, prop: "C12"},
	6: {cs: []xclause{clSAO}, okinds: []int{0}, sel: []proj{{binding: "s", alias: "x"}, pO}, order: []ordKey{{"x", true}}, limit: 2, prop: "C12"},
	7: {cs: []xclause{clSAO}, okinds: []int{0, 1}, sel: []proj{pS, pO}, limit: 0, prop: "C12"},
	// ---- C13: HAVING
	8: {cs: []xclause{clSAO}, okinds: []int{0, 1}, sel: []proj{pS, pO}, having: "?s = /u<a>", havingRef: func(r rrow) bool { return r["s"].b == 'a' }, limit: -1, prop: "C13"},
	9: {cs: []xclause{clSAO}, okinds: []int{0, 1}, sel: []proj{pS, pO}, having: "not ?o = /u<b>", havingRef: func(r rrow) bool { return !verif.And(r["o"].kind == 0, r["o"].b == 'b') }, limit: -1, prop: "C13"},
	10: {cs: []xclause{clSAO}, okinds: []int{0, 1}, sel: []proj{pS, pO}, having: "?o = \"a\"^^type:text", havingRef: func(r rrow) bool { return verif.And(r["o"].kind == 2, r["o"].b == 'a') }, limit: -1, prop: "C13"},
	11: {cs: []xclause{clSIDO}, okinds: []int{0}, sel: []proj{pS, {binding: "i"}, pO}, having: "?i < \"b\"^^type:text", havingRef: func(r rrow) bool { return r["i"].b < 'b' }, limit: -1, prop: "C13"},
	12: {cs: []xclause{clSAOT}, okinds: []int{0}, temporal: true, sel: []proj{pS, {binding: "t"}}, having: "?t > " + bounds[2].Format(tfmt), havingRef: func(r rrow) bool { return anchors[r["t"].pa].After(bounds[2]) }, limit: -1, prop: "C13"},
	13: {cs: []xclause{clSAO}, okinds: []int{0}, sel: []proj{pS, pO}, having: "(?s = /u<a>) or ?o = /u<a>", havingRef: func(r rrow) bool { return verif.Or(r["s"].b == 'a', r["o"].b == 'a') }, limit: -1, prop: "C13"},
	14: {cs: []xclause{clSAO}, okinds: []int{0}, sel: []proj{pS, pO}, having: "(?s = /u<a>) and not ?o = /u<a>", havingRef: func(r rrow) bool { return verif.And(r["s"].b == 'a', r["o"].b != 'a') }, limit: -1, prop: "C13"},
	15: {cs: []xclause{clSAO}, okinds: []int{0}, sel: []proj{pS, pO}, having: "?s = ?o", havingRef: func(r rrow) bool { return r["s"].b == r["o"].b }, limit: -1, prop: "C13"},
	16: {cs: []xclause{clSAO}, okinds: []int{2}, sel: []proj{pS, pO}, having: "?o > \"0\"^^type:int64", havingRef: func(r rrow) bool { return r["o"].i > 0 }, limit: -1, prop: "C13"},
	17: {cs: []xclause{clSAO}, okinds: []int{0}, sel: []proj{pS, {binding: "o", op: "count", alias: "n"}}, groupBy: []string{"s"}, having: "?n > \"1\"^^type:int64", havingRef: func(r rrow) bool { return r["n"].i > 1 }, limit: -1, prop: "C13"},
	18: {cs: []xclause{clSAO}, okinds: []int{0}, sel: []proj{pS, pO}, order: []ordKey{{"o", false}}, having: "not ?s = /u<b>", havingRef: func(r rrow) bool { return r["s"].b != 'b' }, limit: 1, prop: "C13"},
	28: {cs: []xclause{clSIDO}, okinds: []int{0}, sel: []proj{pS, {binding: "i"}, pO}, having: "not ?i < \"b\"^^type:text", havingRef: func(r rrow) bool { return !(r["i"].b < 'b') }, limit: -1, prop: "C13"},
	29: {cs: []xclause{clSAO}, okinds: []int{2}, sel: []proj{pS, pO}, having: "(?s = /u<a>) or not ?o > \"0\"^^type:int64", havingRef: func(r rrow) bool { return verif.Or(r["s"].b == 'a', !(r["o"].i > 0)) }, limit: -1, prop: "C13"},
	38: {cs: []xclause{clSAO}, okinds: []int{0}, sel: []proj{pS, pO}, having: "not not ?s = /u<a>", havingRef: func(r rrow) bool { return r["s"].b == 'a' }, limit: -1, prop: "C13"},
	39: {cs: []xclause{clSAO}, okinds: []int{0}, sel: []proj{pS, pO}, having: "(?o = /u<b>) or not (not ?s = /u<a>)", havingRef: func(r rrow) bool { return verif.Or(r["o"].b == 'b', r["s"].b == 'a') }, limit: -1, prop: "C13"},
	// ---- C11: GROUP BY
	19: {cs: []xclause{clSAO}, okinds: []int{0}, sel: []proj{pS, {binding: "o", op: "count", alias: "n"}}, groupBy: []string{"s"}, limit: -1, prop: "C11"},
	20: {cs: []xclause{clSAO}, okinds: []int{0, 1}, sel: []proj{pS, {binding: "o", op: "count", distinct: true, alias: "n"}}, groupBy: []string{"s"}, limit: -1, prop: "C11"},
	21: {cs: []xclause{clSAO}, okinds: []int{2}, sel: []proj{pS, {binding: "o", op: "sum", alias: "n"}}, groupBy: []string{"s"}, limit: -1, prop: "C11"},
	22: {cs: []xclause{clSAO}, okinds: []int{0}, sel: []proj{pO, {binding: "s", op: "count", alias: "n"}}, groupBy: []string{"o"}, order: []ordKey{{"n", true}, {"o", false}}, limit: 1, prop: "C11"},
	23: {cs: []xclause{clSAO, clOAZ}, okinds: []int{0}, sel: []proj{pS, {binding: "z", op: "count", alias: "n"}, {binding: "o", op: "count", distinct: true, alias: "m"}}, groupBy: []string{"s"}, limit: -1, prop: "C11"},
	24: {cs: []xclause{xq(qclause{s: bS, p: bP, o: bO})}, okinds: []int{0}, sel: []proj{pS, {binding: "p"}, {binding: "o", op: "count", alias: "n"}}, groupBy: []string{"s", "p"}, limit: -1, prop: "C11"},
	30: {cs: []xclause{clSAOT}, okinds: []int{0}, temporal: true, aset: []int{0, 2, 3}, sel: []proj{{binding: "t"}, {binding: "s", op: "count", alias: "n"}}, groupBy: []string{"t"}, limit: -1, prop: "C11x"},
	40: {cs: []xclause{xq(qclause{s: bS, p: bP, o: bO})}, okinds: []int{0}, sel: []proj{{binding: "s", op: "count", alias: "n"}, pS, {binding: "p"}}, groupBy: []string{"s", "p"}, limit: -1, prop: "C11"},
	41: {cs: []xclause{clSAO}, okinds: []int{2, 5}, sel: []proj{pS, {binding: "o", op: "count", distinct: true, alias: "n"}}, groupBy: []string{"s"}, limit: -1, prop: "C11"},
	// ---- C12: ORDER BY the only GROUP BY key, descending
	42: {cs: []xclause{clSAO}, okinds: []int{0}, sel: []proj{pS, {binding: "o", op: "count", alias: "n"}}, groupBy: []string{"s"}, order: []ordKey{{"s", true}}, limit: -1, prop: "C12"},
	43: {cs: []xclause{clSAO}, okinds: []int{0}, sel: []proj{pS, {binding: "o", op: "count", alias: "n"}}, groupBy: []string{"s"}, order: []ordKey{{"s", true}}, limit: 1, prop: "C12"},
	// ---- the single open clause ?s ?p ?o (the only shape whose LIMIT is pushed into the driver lookup)
	33: {cs: []xclause{xq(qclause{s: bS, p: bP, o: bO})}, okinds: []int{0}, sel: []proj{pS, {binding: "p"}, pO}, having: "?s = /u<b>", havingRef: func(r rrow) bool { return r["s"].b == 'b' }, limit: 1, prop: "C13"},
	34: {cs: []xclause{xq(qclause{s: bS, p: bP, o: bO})}, okinds: []int{0}, sel: []proj{pS, {binding: "o", op: "count", alias: "n"}}, groupBy: []string{"s"}, limit: 1, prop: "C11"},
	35: {cs: []xclause{xq(qclause{s: bS, p: bP, o: bO})}, okinds: []int{0}, sel: []proj{pS, {binding: "p"}, pO}, order: []ordKey{{"s", true}}, limit: 1, prop: "C12"},
	36: {cs: []xclause{xq(qclause{s: bS, p: bP, o: bO})}, okinds: []int{0}, sel: []proj{pS, {binding: "p"}, pO}, limit: 1, prop: "C12"},
	// 47: a total order on anchors one nanosecond apart: the same sequence whatever order the rows arrive in
	47: {cs: []xclause{clSAOT}, okinds: []int{0}, temporal: true, aset: []int{1, 2, 3}, sel: []proj{pS, {binding: "t"}}, order: []ordKey{{"t", true}, {"s", false}}, limit: -1, prop: "C14"},
	46: {cs: []xclause{xq(qclause{s: bS, p: bP, o: bO})}, okinds: []int{0}, sel: []proj{pS, {binding: "p"}, pO}, having: "?s = /u<b>", havingRef: func(r rrow) bool { return r["s"].b == 'b' }, limit: 1, prop: "C12"},
	// ---- LIMIT together with a global time bound over the open clause (the limit is pushed into the driver lookup)
	44: {cs: []xclause{xq(qclause{s: bS, p: bP, o: bO})}, okinds: []int{0}, temporal: true, sel: []proj{pS, {binding: "p"}, pO}, hasGlobal: true, global: window{2, -1}, limit: 1, prop: "C12"},
	45: {cs: []xclause{xq(qclause{s: bS, p: bP, o: bO})}, okinds: []int{0}, temporal: true, sel: []proj{pS, {binding: "p"}, pO}, hasGlobal: true, global: window{-1, 2}, limit: 2, prop: "C12x"},
	// ---- C14: a repeated ORDER BY key does not change the order the keys are applied in
	31: {cs: []xclause{clSAO}, okinds: []int{0}, sel: []proj{pS, pO}, order: []ordKey{{"s", false}, {"o", false}}, orderText: "order by ?s asc, ?o asc, ?s asc", limit: -1, prop: "C14"},
	32: {cs: []xclause{clSAO}, okinds: []int{0}, sel: []proj{pS, pO}, order: []ordKey{{"o", true}, {"s", false}}, orderText: "order by ?o desc, ?s asc, ?o desc", limit: -1, prop: "C14"},
	37: {cs: []xclause{clSAOT}, okinds: []int{0}, temporal: true, aset: []int{1, 2, 3}, sel: []proj{pS, {binding: "t"}}, order: []ordKey{{"t", false}}, limit: -1, prop: "C12x"},
	// ---- C12 again: ORDER BY survives HAVING (the planner sorts first, then filters, then limits); needs three rows
	25: {cs: []xclause{clSAO}, okinds: []int{0}, sel: []proj{pS, pO}, order: []ordKey{{"s", false}}, having: "not ?o = /u<b>", havingRef: func(r rrow) bool { return r["o"].b != 'b' }, limit: -1, prop: "C12x"},
	26: {cs: []xclause{clSAO}, okinds: []int{2}, sel: []proj{pS, pO}, order: []ordKey{{"o", true}, {"s", false}}, having: "not ?s = /u<a>", havingRef: func(r rrow) bool { return r["s"].b != 'a' }, limit: 1, prop: "C12x"},
	// ---- C11 again: two plain counts and a sum in one statement
	27: {cs: []xclause{xq(qclause{s: bS, p: bP, o: bO})}, okinds: []int{2}, sel: []proj{pS, {binding: "p", op: "count", alias: "n"}, {binding: "o", op: "count", alias: "m"}, {binding: "o", op: "sum", alias: "t"}}, groupBy: []string{"s"}, limit: -1, prop: "C11"},
}

// HarnessPipeline: PROP selects the property whose shapes are run (11, 12, 13).
func HarnessPipeline() {
	want := map[int]string{11: "C11", 12: "C12", 13: "C13", 120: "C12x", 110: "C11x", 14: "C14"}[verif.Param("PROP", 12)]
	var idx []int
	for i, sh := range pipeShapes {
		if sh.prop == want {
			idx = append(idx, i)
		}
	}
	si := verif.Param("SHAPE", -1)
	if si < 0 {
		si = idx[verif.Choice("shape", len(idx))]
	}
	sh := pipeShapes[si]
	id := sh.prop[:3] + "/e2e"
	K := 1 + verif.Choice("k", verif.Param("K", 2))
	data := make([]*dspec, K)
	allTemporal = len(sh.aset) > 0
	for i := range data {
		data[i] = symDataX("d", sh.temporal, sh.okinds, sh.aset)
	}
	st, _ := newStoreWith("?g", dtriples(data))
	q := sh.text()
	var tbl *table.Table
	var err error
	if !noPanic(id+"/no-panic", func() { tbl, err = runBQL(st, q, 0, 10) }) {
		return
	}
	verif.Reach("executed")
	if err != nil {
		verif.Observe("query", q)
		verif.Observe("error", err.Error())
	}
	verif.Assert(err == nil, id+"/query-succeeds")
	if err != nil {
		return
	}
	if verif.Param("SHOW", 0) == 1 {
		verif.Observe("query", q)
		for _, d := range data {
			verif.Observe("triple", d.t.String())
		}
		verif.Observe("table", tbl.String())
	}
	var sols []env
	gw := noWindow
	if sh.hasGlobal {
		gw = sh.global
	}
	for _, a := range xsolutions(sh.cs, data, gw) {
		if decide(a.cond) {
			sols = append(sols, a.e)
		}
	}
	ref := sh.reference(sols)
	verif.Reach("reference")
	n := len(ref)
	if sh.limit >= 0 && sh.limit < n {
		n = sh.limit
	}
	verif.Assert(tbl.NumRows() == n, id+"/row-count")
	if tbl.NumRows() != n {
		return
	}
	// every returned row is a qualifying row, with at most its multiplicity
	for x := 0; x < tbl.NumRows(); x++ {
		r, _ := tbl.Row(x)
		any := false
		for _, rr := range ref {
			any = verif.Or(any, rowEqRef(r, rr))
		}
		verif.Assert(any, id+"/every-row-qualifies")
	}
	for _, rr := range ref {
		inTable, inRef := []bool{}, 0
		for x := 0; x < tbl.NumRows(); x++ {
			r, _ := tbl.Row(x)
			inTable = append(inTable, rowEqRef(r, rr))
		}
		for _, r2 := range ref {
			if decide(refEq(rr, r2)) {
				inRef++
			}
		}
		if n == len(ref) {
			verif.Assert(verif.Count(inTable...) == inRef, id+"/same-multiset-of-rows")
		} else {
			verif.Assert(verif.Count(inTable...) <= inRef, id+"/no-row-more-often-than-it-qualifies")
		}
	}
	// ORDER BY: the key sequence is the sorted one (first n with LIMIT)
	if len(sh.order) > 0 {
		for x := 0; x < tbl.NumRows(); x++ {
			r, _ := tbl.Row(x)
			ok := true
			for _, k := range sh.order {
				ok = verif.And(ok, cellIs(r["?"+k.binding], ref[x][k.binding]))
			}
			verif.Assert(ok, id+"/rows-in-key-order")
		}
	}
}
