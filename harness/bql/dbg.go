package zzbql

import (
	verif "github.com/google/badwolf/internal/zzverif"
	"github.com/google/badwolf/triple"
)

var dbgQueries = []string{
	`select ?s, ?o, ?t from ?g where { /u<a> "p"@[] ?x . optional { ?s ?p ?o at ?t } } ;`,
	`select ?s id ?sid, ?p id ?pid from ?g where { ?s id ?sid ?p id ?pid ?o } ;`,
	`select ?s type ?st from ?g where { ?s type ?st "p"@[] ?o } ;`,
}

func HarnessDbgSelect() {
	ts := []*triple.Triple{
		mustTriple(mustNode("/u", "a"), mustImmutable("p"), triple.NewNodeObject(mustNode("/u", "b"))),
		mustTriple(mustNode("/u", "b"), mustImmutable("p"), triple.NewNodeObject(mustNode("/u", "c"))),
	}
	_ = ts
	st := c08Store(true)
	q := dbgQueries[verif.Choice("q", len(dbgQueries))]
	tbl, err := runBQL(st, q, 0, 10)
	verif.Reach("executed")
	verif.Observe("q", q)
	if err != nil {
		verif.Observe("err", err.Error())
	} else if tbl != nil {
		verif.Observe("rows", tbl.NumRows())
		verif.Observe("table", tbl.String())
	}
}
