package zzbql

import (
	verif "github.com/google/badwolf/internal/zzverif"
	"github.com/google/badwolf/triple"
)

var dbgQueries = []string{
	`select ?s, ?o from ?g where { ?s "p"@[] ?o } ;`,
	`select ?s, ?o, ?z from ?g where { ?s "p"@[] ?o . ?o "p"@[] ?z } ;`,
	`select ?s, ?o, ?z from ?g where { ?s "p"@[] ?o . optional { ?o "q"@[] ?z } } ;`,
	`select ?s, count(?o) as ?n from ?g where { ?s "p"@[] ?o } group by ?s order by ?n desc ;`,
	`select ?s, ?o from ?g where { ?s "p"@[] ?o } order by ?s desc limit "1"^^type:int64 ;`,
	`select ?s, ?o from ?g where { ?s "p"@[] ?o } having ?s = /u<a> ;`,
	`select ?s id ?sid, ?o type ?ot from ?g where { ?s id ?sid "p"@[] ?o type ?ot } ;`,
	`insert data into ?g { /u<x> "p"@[] /u<y> } ;`,
	`delete data from ?g { /u<a> "p"@[] /u<b> } ;`,
	`create graph ?h ;`,
	`drop graph ?g ;`,
	`construct { ?s "r"@[] ?o } into ?g from ?g where { ?s "p"@[] ?o } ;`,
	`deconstruct { ?s "p"@[] ?o } in ?g from ?g where { ?s "p"@[] ?o } ;`,
	`show graphs ;`,
	`select ?s, ?p, ?o from ?g where { ?s ?p ?o } ;`,
	`select ?o from ?g where { /u<a> "p"@[] ?o } ;`,
	`select ?s from ?g where { ?s "t"@[?t] ?o } ;`,
	`select ?s, ?o from ?g where { ?s "t"@[2019-01-01T00:00:00Z, 2021-01-01T00:00:00Z] ?o } ;`,
	`select ?s, ?o from ?g where { ?s "p"@[] ?o . filter latest(?o) } ;`,
	`construct { ?s "r"@[] ?o ; "w"@[] ?s } into ?g from ?g where { ?s "p"@[] ?o } ;`,
	`select ?s, ?o from ?g where { ?s "p"@[] ?o } before 2021-01-01T00:00:00Z ;`,
}

func HarnessDbgSelect() {
	ts := []*triple.Triple{
		mustTriple(mustNode("/u", "a"), mustImmutable("p"), triple.NewNodeObject(mustNode("/u", "b"))),
		mustTriple(mustNode("/u", "b"), mustImmutable("p"), triple.NewNodeObject(mustNode("/u", "c"))),
	}
	st, _ := newStoreWith("?g", ts)
	q := dbgQueries[verif.Choice("q", len(dbgQueries))]
	tbl, err := runBQL(st, q, 0, 10)
	verif.Reach("executed")
	verif.Observe("q", q)
	if err != nil {
		verif.Observe("err", err.Error())
	} else if tbl != nil {
		verif.Observe("rows", tbl.NumRows())
		verif.Observe("table", tbl.String())
	}
}
