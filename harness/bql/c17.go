package zzbql

import (
	verif "github.com/google/badwolf/internal/zzverif"
	"github.com/google/badwolf/bql/grammar"
	"github.com/google/badwolf/bql/lexer"
	"github.com/google/badwolf/bql/semantic"
)

// minimal[s] = a shortest token sequence derivable from s (nil if none found yet).
func minimalExpansions(g *grammar.Grammar) map[semantic.Symbol][]lexer.TokenType {
	min := map[semantic.Symbol][]lexer.TokenType{}
	done := map[semantic.Symbol]bool{}
	for changed := true; changed; {
		changed = false
		for _, s := range rules(g) {
			for _, cl := range (*g)[s] {
				var seq []lexer.TokenType
				ok := true
				for _, e := range cl.Elements {
					if isSym(e) {
						if !done[e.Symbol()] {
							ok = false
							break
						}
						seq = append(seq, min[e.Symbol()]...)
					} else {
						seq = append(seq, e.Token())
					}
				}
				if ok && (!done[s] || len(seq) < len(min[s])) {
					min[s], done[s] = seq, true
					changed = true
				}
			}
		}
	}
	for s := range min {
		if !done[s] {
			delete(min, s)
		}
	}
	return min
}

// C17 (tables): for a symbolic rule and a symbolic pair of alternatives of
// BQL(): first elements are tokens and differ, at most one empty alternative
// and it is last, every referenced symbol is a rule, the rule is reachable
// from START and productive, and SemanticBQL() has the same shape.
func HarnessC17Tables() {
	g, sg := grammar.BQL(), grammar.SemanticBQL()
	rs := rules(g)
	verif.Assert(len(rules(sg)) == len(rs), "C17/semantic-same-rule-count")
	// reachability from START and productivity (fixpoints over the tables)
	reach := map[semantic.Symbol]bool{"START": true}
	for changed := true; changed; {
		changed = false
		for _, s := range rs {
			if !reach[s] {
				continue
			}
			for _, cl := range (*g)[s] {
				for _, e := range cl.Elements {
					if isSym(e) && !reach[e.Symbol()] {
						reach[e.Symbol()] = true
						changed = true
					}
				}
			}
		}
	}
	min := minimalExpansions(g)

	r := verif.Int("rule")
	verif.Assume(verif.And(r >= 0, r < len(rs)))
	s := rs[r]
	alts := (*g)[s]
	verif.Reach("rule")
	verif.Assert(len(alts) > 0, "C17/rule-has-alternatives")
	verif.Assert(reach[s], "C17/rule-reachable-from-START")
	_, productive := min[s]
	verif.Assert(productive, "C17/rule-derives-a-finite-statement")
	salts, ok := (*sg)[s]
	verif.Assert(ok && len(salts) == len(alts), "C17/semantic-same-alternatives")
	if len(alts) == 0 || !ok || len(salts) != len(alts) {
		return
	}
	a := verif.Int("alt")
	verif.Assume(verif.And(a >= 0, a < len(alts)))
	cl, scl := alts[a], salts[a]
	verif.Assert(len(scl.Elements) == len(cl.Elements), "C17/semantic-same-elements")
	if len(scl.Elements) == len(cl.Elements) {
		for i := range cl.Elements {
			verif.Assert(cl.Elements[i].Symbol() == scl.Elements[i].Symbol() && cl.Elements[i].Token() == scl.Elements[i].Token(), "C17/semantic-same-elements")
		}
	}
	for _, e := range cl.Elements {
		if isSym(e) {
			_, exists := (*g)[e.Symbol()]
			verif.Assert(exists, "C17/referenced-symbol-exists")
		}
	}
	if len(cl.Elements) == 0 {
		verif.Assert(a == len(alts)-1, "C17/empty-alternative-is-last")
	} else {
		verif.Assert(!isSym(cl.Elements[0]), "C17/alternative-starts-with-a-token")
	}
	b := verif.Int("alt2")
	verif.Assume(verif.And(b > a, b < len(alts)))
	verif.Reach("pair")
	cl2 := alts[b]
	if len(cl.Elements) > 0 && len(cl2.Elements) > 0 {
		verif.Assert(cl.Elements[0].Token() != cl2.Elements[0].Token(), "C17/alternatives-start-with-different-tokens")
	}
	verif.Assert(len(cl.Elements) > 0, "C17/at-most-one-empty-alternative-and-last")
}

type occurrence struct {
	rule semantic.Symbol
	alt  int
	pos  int
}

// occurrences lists where symbol s is mentioned in the grammar.
func occurrences(g *grammar.Grammar, s semantic.Symbol) []occurrence {
	var out []occurrence
	for _, r := range rules(g) {
		for ai, cl := range (*g)[r] {
			for ei, e := range cl.Elements {
				if isSym(e) && e.Symbol() == s {
					out = append(out, occurrence{r, ai, ei})
				}
			}
		}
	}
	return out
}

func expandAlt(g *grammar.Grammar, min map[semantic.Symbol][]lexer.TokenType, s semantic.Symbol, ai int, hole int, inner []lexer.TokenType) ([]lexer.TokenType, bool) {
	var seq []lexer.TokenType
	for ei, e := range (*g)[s][ai].Elements {
		switch {
		case ei == hole:
			seq = append(seq, inner...)
		case isSym(e):
			m, ok := min[e.Symbol()]
			if !ok {
				return nil, false
			}
			seq = append(seq, m...)
		default:
			seq = append(seq, e.Token())
		}
	}
	return seq, true
}

// wrap embeds the token sequence cur, derived from symbol s, into a sentence
// from START: a chain START → … → s chosen by BFS over "rule mentions rule"
// edges, every other symbol expanded minimally.
func wrap(g *grammar.Grammar, s semantic.Symbol, cur []lexer.TokenType, min map[semantic.Symbol][]lexer.TokenType) ([]lexer.TokenType, bool) {
	prev := map[semantic.Symbol]occurrence{}
	seen := map[semantic.Symbol]bool{"START": true}
	queue := []semantic.Symbol{"START"}
	for len(queue) > 0 && !seen[s] {
		x := queue[0]
		queue = queue[1:]
		for ai, cl := range (*g)[x] {
			for ei, e := range cl.Elements {
				if isSym(e) && !seen[e.Symbol()] {
					seen[e.Symbol()] = true
					prev[e.Symbol()] = occurrence{x, ai, ei}
					queue = append(queue, e.Symbol())
				}
			}
		}
	}
	if !seen[s] {
		return nil, false
	}
	ok := true
	for x := s; x != "START"; {
		st := prev[x]
		cur, ok = expandAlt(g, min, st.rule, st.alt, st.pos, cur)
		if !ok {
			return nil, false
		}
		x = st.rule
	}
	return cur, true
}

// candidates returns sentences whose derivation takes alternative alt of rule
// target, one per place where target is mentioned (the lexer is context
// sensitive, so not every place admits every alternative).
func candidates(g *grammar.Grammar, target semantic.Symbol, alt int, min map[semantic.Symbol][]lexer.TokenType) [][]lexer.TokenType {
	inner, ok := expandAlt(g, min, target, alt, -1, nil)
	if !ok {
		return nil
	}
	var out [][]lexer.TokenType
	if target == "START" {
		return [][]lexer.TokenType{inner}
	}
	for _, oc := range occurrences(g, target) {
		mid, ok := expandAlt(g, min, oc.rule, oc.alt, oc.pos, inner)
		if !ok {
			continue
		}
		if full, ok := wrap(g, oc.rule, mid, min); ok {
			out = append(out, full)
		}
	}
	return out
}

// C17 (witnesses): for every alternative of a symbolic rule there is a concrete
// statement which the real lexer and parser accept by taking that alternative
// (observed with ProcessStart probes on a private copy of BQL()).
func HarnessC17Witness() {
	g := grammar.BQL()
	rs := rules(g)
	min := minimalExpansions(g)
	r := verif.Int("rule")
	verif.Assume(verif.And(r >= 0, r < len(rs)))
	s := rs[r]
	for ai := range (*g)[s] {
		cands := candidates(g, s, ai, min)
		verif.Assert(len(cands) > 0, "C17/witness-derivable")
		found := false
		for _, toks := range cands {
			if tryWitness(rs, s, ai, render(toks)) {
				found = true
				break
			}
		}
		verif.Reach("tried")
		if !found && len(cands) > 0 {
			verif.Observe("rule", string(s))
			verif.Observe("alt", ai)
			verif.Observe("text", render(cands[0]))
		}
		verif.Assert(found, "C17/alternative-has-an-accepted-witness")
	}
}

// tryWitness parses text with the real lexer and parser on a private copy of
// BQL() carrying probes, and reports whether it was accepted taking alternative
// ai of rule s.
func tryWitness(rs []semantic.Symbol, s semantic.Symbol, ai int, text string) bool {
	pg := grammar.BQL()
	fired := make([]int, len((*pg)[s]))
	parents := 0
	for i, cl := range (*pg)[s] {
		i := i
		cl.ProcessStart = func(st *semantic.Statement, sym semantic.Symbol) (semantic.ClauseHook, error) {
			fired[i]++
			return nil, nil
		}
	}
	for _, ps := range rs {
		if ps == s {
			continue
		}
		for _, cl := range (*pg)[ps] {
			mentions := false
			for _, e := range cl.Elements {
				if e.Symbol() == s {
					mentions = true
				}
			}
			if mentions {
				cl.ProcessStart = func(st *semantic.Statement, sym semantic.Symbol) (semantic.ClauseHook, error) {
					parents++
					return nil, nil
				}
			}
		}
	}
	p, err := grammar.NewParser(pg)
	if err != nil {
		return false
	}
	if p.Parse(grammar.NewLLk(text, 1), &semantic.Statement{}) != nil {
		return false
	}
	if len((*pg)[s][ai].Elements) > 0 {
		return fired[ai] > 0
	}
	// the empty alternative has no hook: the rule was consumed (a clause
	// mentioning it started, or it is START) and no other alternative fired
	others := 0
	for i, n := range fired {
		if i != ai {
			others += n
		}
	}
	return (parents > 0 || s == "START") && others == 0
}
