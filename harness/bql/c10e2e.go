package zzbql

import (
	verif "github.com/google/badwolf/internal/zzverif"
	"github.com/google/badwolf/bql/table"
)

func isNullCell(c *table.Cell) bool {
	return c != nil && c.S == nil && c.N == nil && c.P == nil && c.L == nil && c.T == nil
}

type optShape struct {
	mand     xclause
	opts     []xclause
	okinds   []int // object kinds of the data (nil: node or text)
	temporal bool
	filter   string                  // FILTER clause on a binding of the mandatory clause
	keep     func(d *dspec) bool     // the mandatory matches the FILTER keeps
	dead     []xclause               // optional clauses written before opts that no triple of the universe matches (predicate "c")
}

var c10Shapes = []optShape{
	{mand: clSAO, opts: xqs(qclause{s: bO, p: cA, o: bZ})},                                               // optional continues from ?o
	{mand: clSAO, opts: xqs(qclause{s: bS, p: pos{cb: 'b'}, o: bZ})},                                     // optional shares ?s
	{mand: clSAO, opts: xqs(qclause{s: bZ, p: pos{cb: 'b'}, o: bT})},                                     // disjoint bindings
	{mand: clSAO, opts: xqs(qclause{s: bS, p: pos{cb: 'b'}, o: bO})},                                     // optional adds no binding
	{mand: clSAO, opts: xqs(qclause{s: bS, p: pos{cb: 'b'}, o: bZ}, qclause{s: bT, p: cA, o: bZ})},       // second optional shares the (maybe NULL) ?z
	{mand: clSAO, opts: xqs(qclause{s: bS, p: pos{cb: 'b'}, o: bZ}, qclause{s: bO, p: pos{cb: 'b'}, o: bT})}, // two independent optionals
	// a FILTER on the mandatory clause does not constrain the lookups of the optional one
	{mand: xq(qclause{s: bS, p: bP, o: bO}), opts: xqs(qclause{s: bO, p: pos{bind: "q"}, o: bZ}), temporal: true, filter: "filter isTemporal(?p)",
		keep: func(d *dspec) bool { return d.pk == 1 }},
	{mand: xq(qclause{s: bS, p: bP, o: bO}), opts: xqs(qclause{s: bS, p: pos{bind: "q"}, o: bZ}), temporal: true, filter: "filter isImmutable(?p)",
		keep: func(d *dspec) bool { return d.pk == 0 }},
	// 8: an anchor binding in the optional clause: an immutable match shows ?t as NULL
	{mand: xq(qclause{s: bS, p: bP, o: bO}), opts: []xclause{{qclause: qclause{s: bS, p: pos{cb: 'b'}, o: bZ, at: "t"}, lo: -1, hi: -1}}, temporal: true, okinds: []int{0}},
	// 9: TYPE / ID extraction in the optional clause: NULL where it cannot apply
	{mand: xq(qclause{s: bS, p: cA, o: bO}), opts: []xclause{{qclause: qclause{s: bS, p: pos{cb: 'b'}, o: bZ}, oType: "y", oID: "i", lo: -1, hi: -1}}, okinds: []int{0, 1}},
	// 10: the optional clause shares ?t only through the anchor of a predicate in object position
	{mand: xclause{qclause: qclause{s: bS, p: cA, o: bO, at: "t"}, lo: -1, hi: -1}, opts: []xclause{{qclause: qclause{s: bZ, p: pos{bind: "q"}, o: cA}, oAtBind: "t", lo: -1, hi: -1}}, temporal: true, okinds: []int{0, 4}},
	// 11, 12: an optional clause that shares nothing and matches nothing stands before the
	// optional clause under test: its bindings are NULL in every row and the join
	// that follows is still made on the bindings of the mandatory clause
	{mand: clSAO, dead: xqs(qclause{s: pos{bind: "x"}, p: pos{cb: 'c'}, o: pos{bind: "y"}}), opts: xqs(qclause{s: bO, p: pos{cb: 'b'}, o: bZ}), okinds: []int{0}},
	{mand: clSAO, dead: xqs(qclause{s: pos{bind: "x"}, p: pos{cb: 'c'}, o: pos{bind: "y"}}), opts: xqs(qclause{s: bS, p: pos{cb: 'b'}, o: bZ})},
}

func xqs(cs ...qclause) []xclause {
	var out []xclause
	for _, c := range cs {
		out = append(out, xq(c))
	}
	return out
}

func optText(sh optShape) string {
	all := append(append([]xclause{sh.mand}, sh.dead...), sh.opts...)
	bs := xbindingsOf(all)
	q := "select "
	for i, b := range bs {
		if i > 0 {
			q += ", "
		}
		q += "?" + b
	}
	q += " from ?g where { " + sh.mand.text()
	for _, o := range append(append([]xclause{}, sh.dead...), sh.opts...) {
		q += " . optional { " + o.text() + " }"
	}
	if sh.filter != "" {
		q += " . " + sh.filter
	}
	return q + " } ;"
}

// C10 (b): OPTIONAL end to end: every solution of the mandatory clause appears
// in the result; with one optional clause the result is exactly the left outer
// join (once per agreeing match, or once NULL-extended).
func HarnessC10Optional() {
	si := verif.Param("SHAPE", -1)
	if si < 0 {
		si = verif.Choice("shape", len(c10Shapes))
	}
	sh := c10Shapes[si]
	K := 1 + verif.Choice("k", verif.Param("K", 2))
	data := make([]*dspec, K)
	for i := range data {
		ok := sh.okinds
		if ok == nil {
			ok = []int{0, 1}
		}
		data[i] = symDataX("d", sh.temporal, ok, nil)
	}
	if cl := c03XClass(xshape{cs: append([]xclause{sh.mand}, sh.opts...)}, data); cl != "" {
		verif.Class(cl)
	}
	// a literal bound to a binding that an optional clause uses as subject is the
	// planner defect recorded under C03
	for _, o := range sh.opts {
		if o.s.bind == sh.mand.o.bind {
			for _, d := range data {
				if d.ok == 1 {
					verif.Class("object-binding-holding-a-literal-reused-as-subject")
				}
			}
		}
	}
	st, _ := newStoreWith("?g", dtriples(data))
	q := optText(sh)
	var tbl *table.Table
	var err error
	if !noPanic("C10/optional/no-panic", func() { tbl, err = runBQL(st, q, 0, 10) }) {
		return
	}
	verif.Reach("executed")
	if err != nil {
		verif.Observe("query", q)
		verif.Observe("error", err.Error())
	}
	verif.Assert(err == nil, "C10/optional/query-succeeds")
	if err != nil {
		return
	}
	first := make([]bool, K)
	for i := range data {
		f := true
		for j := 0; j < i; j++ {
			f = verif.And(f, !data[i].eq(data[j]))
		}
		first[i] = f
	}
	// every mandatory solution appears in at least one row
	for i, d := range data {
		e := env{}
		c := verif.And(first[i], sh.mand.xmatches(d, e, noWindow))
		if sh.keep != nil && !sh.keep(d) {
			c = false
		}
		found := false
		for x := 0; x < tbl.NumRows(); x++ {
			r, _ := tbl.Row(x)
			ok := true
			for b, v := range e {
				ok = verif.And(ok, cellIs(r["?"+b], v))
			}
			found = verif.Or(found, ok)
		}
		verif.Assert(verif.Implies(c, found), "C10/optional/mandatory-solution-never-dropped")
	}
	if len(sh.opts) != 1 {
		return
	}
	// exact left join for one optional clause
	opt := sh.opts[0]
	newBs := map[string]bool{}
	for _, b := range xbindingsOf([]xclause{opt}) {
		newBs[b] = true
	}
	for _, b := range xbindingsOf([]xclause{sh.mand}) {
		delete(newBs, b)
	}
	var conds []bool
	type exp struct {
		cond bool
		e    env
		null bool
	}
	var exps []exp
	for i, d := range data {
		e0 := env{}
		cm := verif.And(first[i], sh.mand.xmatches(d, e0, noWindow))
		if sh.keep != nil && !sh.keep(d) {
			cm = false
		}
		anyMatch := false
		for j, d2 := range data {
			e := env{}
			for k, v := range e0 {
				e[k] = v
			}
			c := verif.And(cm, verif.And(first[j], opt.xmatchesOpt(d2, e, noWindow, true)))
			anyMatch = verif.Or(anyMatch, verif.And(first[j], opt.xmatchesOpt(d2, env(copyEnv(e0)), noWindow, true)))
			exps = append(exps, exp{c, e, false})
			conds = append(conds, c)
		}
		cn := verif.And(cm, !anyMatch)
		exps = append(exps, exp{cn, e0, true})
		conds = append(conds, cn)
	}
	verif.Assert(tbl.NumRows() == verif.Count(conds...), "C10/optional/left-join-row-count")
	// the same statement grouped by all its bindings (no aggregate) is the set of
	// distinct left-join rows: it succeeds - the bindings of the optional clause are
	// part of the table also when it matched nothing - and has at most as many rows
	if sh.filter == "" {
		bs := xbindingsOf(append(append([]xclause{sh.mand}, sh.dead...), sh.opts...))
		gq := q[:len(q)-1] + "group by"
		for i, b := range bs {
			if i > 0 {
				gq += ","
			}
			gq += " ?" + b
		}
		gq += " ;"
		var gt *table.Table
		var gerr error
		if noPanic("C10/optional/no-panic", func() { gt, gerr = runBQL(st, gq, 0, 10) }) {
			if gerr != nil {
				verif.Observe("query", gq)
				verif.Observe("error", gerr.Error())
			}
			verif.Assert(gerr == nil, "C10/optional/grouped-by-all-bindings-succeeds")
			if gerr == nil {
				verif.Assert(gt.NumRows() <= tbl.NumRows() && (gt.NumRows() > 0) == (tbl.NumRows() > 0), "C10/optional/grouped-rows-are-the-distinct-rows")
			}
		}
	}
	for x := 0; x < tbl.NumRows(); x++ {
		r, _ := tbl.Row(x)
		any := false
		for _, ex := range exps {
			ok := ex.cond
			for b, v := range ex.e {
				ok = verif.And(ok, cellIs(r["?"+b], v))
			}
			if ex.null {
				for b := range newBs {
					ok = verif.And(ok, isNullCell(r["?"+b]))
				}
			}
			any = verif.Or(any, ok)
		}
		verif.Assert(any, "C10/optional/every-row-is-a-left-join-row")
	}
}

func copyEnv(e env) map[string]val {
	out := map[string]val{}
	for k, v := range e {
		out[k] = v
	}
	return out
}
