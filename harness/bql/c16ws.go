package zzbql

import (
	verif "github.com/google/badwolf/internal/zzverif"
	"github.com/google/badwolf/bql/lexer"
)

var c16Statements = append([]string{
	`select ?s from ?g where { ?s "p"@[?t] ?o } having ?t < 2006-01-02T15:04:05Z limit "1"^^type:int64 ;`,
	`select ?s from ?g where { ?s "p"@[?t] ?o } having (?t > 2006-01-02T15:04:05Z) and not ?t = 2007-01-02T15:04:05Z ;`,
	`select ?s from ?g where { ?s ?p ?o . filter latest(?p) } ;`,
	`select ?s from ?g where { ?s "p"@[2006-01-02T15:04:05Z,2007-01-02T15:04:05Z] ?o } before 2008-01-02T15:04:05Z ;`,
	`select ?s as ?x, count(distinct ?o) as ?n from ?g where { ?s id ?i type ?y "p"@[] ?o as ?z } group by ?s ;`,
	`insert data into ?g { /u<a> "p"@[] "x y"^^type:text . _:b "q"@[2006-01-02T15:04:05Z] /u<b> } ;`,
}, c18Corpus...)

func lexText(in string) []lexer.Token {
	var toks []lexer.Token
	for t := range lexer.New(in, 4) {
		toks = append(toks, t)
	}
	return toks
}

func wsByte(c byte) bool {
	return verif.Or(verif.Or(c == ' ', c == '\t'), verif.Or(verif.Or(c == '\n', c == '\r'), verif.Or(c == '\v', c == '\f')))
}

// C16 (c'): whitespace between two tokens of a whole statement: the statement
// is re-joined from its tokens with single spaces, then the blank at one gap
// (a skeleton choice) is replaced by one or two symbolic whitespace bytes; the
// token kinds and texts must not change.  Unlike the two-word harness this
// puts every token in its context (time literals after comparison operators
// and BEFORE/AFTER/BETWEEN, filter functions, bounds).
func HarnessC16WhitespaceContext() {
	st := c16Statements[verif.Choice("statement", len(c16Statements))]
	ref := lexText(st)
	verif.Assume(len(ref) > 2 && ref[len(ref)-1].Type == lexer.ItemEOF)
	words := ref[:len(ref)-1]
	join := func(gap int, sep string) string {
		s := ""
		for i, w := range words {
			if i > 0 {
				if i == gap {
					s += sep
				} else if !(words[i-1].Type == lexer.ItemFilterFunction && w.Type == lexer.ItemLPar) {
					s += " "
				}
			}
			s += trimWS(w.Text) // the time lexer keeps the blank that ended its literal
		}
		return s
	}
	base := lexText(join(-1, ""))
	// the single-space form is the statement itself, token for token
	verif.Assume(len(base) == len(ref))
	gap := 1 + verif.Choice("gap", len(words)-1)
	if words[gap-1].Type == lexer.ItemFilterFunction && words[gap].Type == lexer.ItemLPar {
		return // no whitespace is allowed between a filter function and its parenthesis
	}
	n := 1 + verif.Choice("n", 2)
	sep := verif.String("sep", n)
	for i := 0; i < n; i++ {
		verif.Assume(wsByte(sep[i]))
	}
	got := lexText(join(gap, sep))
	verif.Reach("lexed")
	verif.Assert(len(got) == len(base), "C16/whitespace-in-context/same-token-count")
	if len(got) != len(base) {
		return
	}
	for i := range got {
		verif.Assert(got[i].Type == base[i].Type, "C16/whitespace-in-context/same-kinds")
		// "up to surrounding whitespace": the time lexer keeps the blanks before its literal
		verif.Assert(trimWS(got[i].Text) == trimWS(base[i].Text), "C16/whitespace-in-context/same-texts")
	}
}

func trimWS(s string) string {
	isWS := func(c byte) bool { return c == ' ' || c == '\t' || c == '\n' || c == '\r' || c == '\v' || c == '\f' }
	for len(s) > 0 && isWS(s[0]) {
		s = s[1:]
	}
	for len(s) > 0 && isWS(s[len(s)-1]) {
		s = s[:len(s)-1]
	}
	return s
}
