package zzstore

import (
	"time"

	verif "github.com/google/badwolf/internal/zzverif"
	"github.com/google/badwolf/storage"
	"github.com/google/badwolf/storage/memory"
	"github.com/google/badwolf/triple"
	"github.com/google/badwolf/triple/node"
	"github.com/google/badwolf/triple/predicate"
)

// C09 (window, anchors at large): one temporal triple anchored at an instant
// from a pool that spans the whole calendar (year 0000 - before Go's zero time -,
// 1601, the two instants where a count of nanoseconds since 1970 wraps around,
// 1970, 2300, 9999; on the second, one nanosecond later, one nanosecond before
// the next), read with no window, a lower bound, an upper bound or both - whole
// seconds l and u that are symbolic from year 0000 to year 9999: the triple is
// returned exactly when l <= anchor <= u as instants.  (The anchor itself is a
// skeleton choice because every lookup sorts its result by the printed triple,
// and printing a symbolic instant forks on every digit.)
func HarnessC09WindowWide() {
	const lo0, hi0 = -62167219200, 253402300800 // 0000-01-01 .. 10000-01-01
	secs := []int64{lo0 + 86400*152, -11644473600, -9223372037, -9223372036, 0, 9223372036, 9223372037, 10413792000, hi0 - 1}
	s := secs[verif.Choice("anchor", len(secs))]
	var n int64
	if verif.Param("PROP", 9) == 1 {
		// without a window the nanoseconds can be symbolic (printing them forks ten ways)
		n = verif.Int64("n")
		verif.Assume(verif.And(n >= 0, n < 1000000000))
	} else {
		n = []int64{0, 1, 999999999}[verif.Choice("nanos", 3)]
	}
	p, err := predicate.NewTemporal("p", time.Unix(s, n).UTC())
	verif.Assume(err == nil)
	sub, err := node.NewNodeFromStrings("/t", "a")
	verif.Assume(err == nil)
	obj, err := node.NewNodeFromStrings("/t", "b")
	verif.Assume(err == nil)
	t, err := triple.New(sub, p, triple.NewNodeObject(obj))
	verif.Assume(err == nil)
	g, err := memory.NewStore().NewGraph(ctx, "?g")
	verif.Assume(err == nil)
	verif.Assume(g.AddTriples(ctx, []*triple.Triple{t}) == nil)

	opts := &storage.LookupOptions{}
	want := true
	id := "C09/window-wide"
	nb := 4
	if verif.Param("PROP", 9) == 1 {
		// C01: a stored triple is listed with default options and exists, whatever its anchor
		id, nb = "C01/anchors-at-large", 1
	}
	b := verif.Choice("bounds", nb)
	if b&1 != 0 {
		l := verif.Int64("l")
		verif.Assume(verif.And(l >= lo0, l < hi0))
		lt := time.Unix(l, 0).UTC()
		opts.LowerAnchor = &lt
		want = verif.And(want, s >= l)
	}
	if b&2 != 0 {
		u := verif.Int64("u")
		verif.Assume(verif.And(u >= lo0, u < hi0))
		ut := time.Unix(u, 0).UTC()
		opts.UpperAnchor = &ut
		want = verif.And(want, verif.Or(s < u, verif.And(s == u, n == 0)))
	}
	got := 0
	var rerr error
	ok := noPanic(id+"/no-panic", func() {
		switch verif.Choice("method", verif.Param("METHODS", 4)) {
		case 0:
			ch := make(chan *triple.Triple, 4)
			rerr = g.Triples(ctx, opts, ch)
			for range ch {
				got++
			}
		case 1:
			ch := make(chan *triple.Triple, 4)
			rerr = g.TriplesForSubject(ctx, sub, opts, ch)
			for range ch {
				got++
			}
		case 2:
			ch := make(chan *triple.Triple, 4)
			rerr = g.TriplesForObject(ctx, triple.NewNodeObject(obj), opts, ch)
			for range ch {
				got++
			}
		default:
			// (the lookups that take a predicate compare printed predicates: formatting a
			// symbolic instant is outside this harness; they are covered with pool anchors)
			ch := make(chan *predicate.Predicate, 4)
			rerr = g.PredicatesForSubjectAndObject(ctx, sub, triple.NewNodeObject(obj), opts, ch)
			for range ch {
				got++
			}
		}
	})
	if !ok {
		return
	}
	verif.Reach("read")
	verif.Assert(rerr == nil, id+"/no-error")
	verif.Assert((got == 1) == want && got <= 1, id+"/returned-iff-inside-the-window")
	ex, err := g.Exist(ctx, t)
	verif.Assert(err == nil && ex, id+"/exists")
}
