package zzstore

import (
	"context"

	"github.com/google/badwolf/triple/node"
	"github.com/google/badwolf/triple/predicate"
	verif "github.com/google/badwolf/internal/zzverif"
	"github.com/google/badwolf/bql/planner/filter"
	"github.com/google/badwolf/storage"
	"github.com/google/badwolf/storage/memoization"
	"github.com/google/badwolf/storage/memory"
	"github.com/google/badwolf/triple"
)

// concrete data pool for C19: the quantifier of interest is the history of
// operations, the handles and the lookup options, not the triple contents.
func c19Pool() []*triple.Triple {
	mk := func(s, p, o byte, pk, pa int) *triple.Triple {
		return (&spec{sb: s, pb: p, ob: o, pk: pk, pa: pa}).build()
	}
	// two triples share subject and predicate identifier but not the anchor
	return []*triple.Triple{mk('a', 'p', 'x', 1, 0), mk('a', 'p', 'y', 1, 3), mk('b', 'q', 'x', 0, 0)}
}

type c19Read struct {
	handle, method, arg int
	max, off           int
	seq                int // number of writes before this read
}

func sameSeq(a, b []*triple.Triple) bool {
	if len(a) != len(b) {
		return false
	}
	for i := range a {
		if a[i] != b[i] {
			return false
		}
	}
	return true
}

// read performs read method m on g: 0 Triples, 1 TriplesForSubject, 2 Objects
// (reported as the triples they belong to), 3 Exist.
func c19read(g storage.Graph, m, arg int, lo *storage.LookupOptions, pool []*triple.Triple) ([]*triple.Triple, bool, error) {
	t := pool[arg]
	switch m {
	case 0:
		ch := make(chan *triple.Triple, 16)
		err := g.Triples(ctx, lo, ch)
		var out []*triple.Triple
		for x := range ch {
			out = append(out, x)
		}
		return out, false, err
	case 1:
		ch := make(chan *triple.Triple, 16)
		err := g.TriplesForSubject(ctx, t.Subject(), lo, ch)
		var out []*triple.Triple
		for x := range ch {
			out = append(out, x)
		}
		return out, false, err
	case 2:
		ch := make(chan *triple.Object, 16)
		err := g.Objects(ctx, t.Subject(), t.Predicate(), lo, ch)
		var out []*triple.Triple
		for o := range ch {
			for _, x := range pool {
				if x.Object() == o {
					out = append(out, x)
				}
			}
		}
		return out, false, err
	default:
		ex, err := g.Exist(ctx, t)
		return nil, ex, err
	}
}

// C19 (a): sequential lock-step: a memoized memory store and a plain memory
// store are driven by the same history of H operations (adds, removes, reads
// with symbolic paging options) through one or two handles of the same graph;
// every read must return what the plain store returns at that moment.
func HarnessC19LockStep() {
	H := verif.Param("H", 3)
	pool := c19Pool()
	ms := memoization.New(memory.NewStore())
	ps := memory.NewStore()
	_, e1 := ms.NewGraph(ctx, "?g")
	pg, e2 := ps.NewGraph(ctx, "?g")
	verif.Assume(e1 == nil && e2 == nil)
	nh := verif.Param("HANDLES", 2)
	var hs []storage.Graph
	for i := 0; i < nh; i++ {
		h, err := ms.Graph(ctx, "?g")
		verif.Assume(err == nil)
		hs = append(hs, h)
	}
	writes := 0
	lastWriteHandle := -1
	var reads []c19Read
	if verif.Param("WARM", 1) == 1 {
		// pre-history (not counted in H): two triples added through handle 0, then
		// the full listing read once through every handle
		hs[0].AddTriples(ctx, pool[:2])
		pg.AddTriples(ctx, pool[:2])
		writes++
		lastWriteHandle = 0
		for h := range hs {
			lo := &storage.LookupOptions{}
			c19read(hs[h], 0, 0, lo, pool)
			reads = append(reads, c19Read{h, 0, 0, 0, 0, writes})
		}
	}
	for step := 0; step < H; step++ {
		h := verif.Choice("handle", nh)
		op := verif.Choice("op", 6)
		arg := verif.Choice("arg", len(pool))
		switch op {
		case 0:
			verif.Assert(hs[h].AddTriples(ctx, []*triple.Triple{pool[arg]}) == nil, "C19/add-succeeds")
			pg.AddTriples(ctx, []*triple.Triple{pool[arg]})
			writes++
			lastWriteHandle = h
			continue
		case 1:
			verif.Assert(hs[h].RemoveTriples(ctx, []*triple.Triple{pool[arg]}) == nil, "C19/remove-succeeds")
			pg.RemoveTriples(ctx, []*triple.Triple{pool[arg]})
			writes++
			lastWriteHandle = h
			continue
		}
		m := op - 2
		max, off := verif.Int("max"), verif.Int("off")
		verif.Assume(verif.And(verif.And(max >= 0, max <= 3), verif.And(off >= 0, off <= 3)))
		lo1 := &storage.LookupOptions{MaxElements: max, Offset: off}
		lo2 := &storage.LookupOptions{MaxElements: max, Offset: off}
		got, gotE, err1 := c19read(hs[h], m, arg, lo1, pool)
		want, wantE, err2 := c19read(pg, m, arg, lo2, pool)
		verif.Reach("read")
		// witness classes of the two known defects
		cls := ""
		for _, r := range reads {
			if r.handle == h && r.seq < writes && lastWriteHandle != h {
				cls = "stale-after-write-through-other-handle"
			}
		}
		if cls == "" {
			for _, r := range reads {
				if r.handle == h && r.method == m && c19SameArgs(m, r.arg, arg, pool) && r.seq == writes && r.max == max && r.off != off {
					cls = "offset-not-in-cache-key"
				}
			}
		}
		verif.Class(cls)
		verif.Assert((err1 == nil) == (err2 == nil), "C19/same-error")
		if m == 3 {
			verif.Assert(gotE == wantE, "C19/exist-same-answer")
		} else {
			verif.Assert(sameSeq(got, want), "C19/read-same-answer")
		}
		verif.Class("")
		reads = append(reads, c19Read{h, m, arg, max, off, writes})
	}
}

// c19SameArgs: the two reads pass the same fixed components to method m.
func c19SameArgs(m, a, b int, pool []*triple.Triple) bool {
	switch m {
	case 0:
		return true
	case 1:
		return pool[a].Subject().String() == pool[b].Subject().String()
	case 2:
		return pool[a].Subject().String() == pool[b].Subject().String() && pool[a].Predicate().String() == pool[b].Predicate().String()
	}
	return a == b
}

// c19Specs: the concrete pool as specs (so that the generic lookup of C02 can
// attribute results): two temporal triples sharing subject and predicate id at
// an instant and one nanosecond later, a third at a much later instant, and an
// immutable one.
func c19Specs() []*spec {
	mk := func(s, p, o byte, pk, pa int) *spec {
		sp := &spec{sb: s, pb: p, ob: o, pk: pk, pa: pa}
		sp.t = sp.build()
		return sp
	}
	return []*spec{mk('a', 'p', 'x', 1, 0), mk('a', 'p', 'y', 1, 1), mk('a', 'p', 'x', 1, 3), mk('b', 'q', 'x', 0, 0), mk('a', 'q', 'y', 0, 0)}
}

// c19ReadAll performs read m (0..9 the ten indexed lookups of C02, 10 the full
// listing, 11 Exist) with the components of q.
func c19ReadAll(g storage.Graph, m int, q *spec, lo *storage.LookupOptions, all []*spec) (res []*spec, ex bool, err error, foreign bool) {
	switch m {
	case 10:
		ch := make(chan *triple.Triple, 64)
		err = g.Triples(ctx, lo, ch)
		for v := range ch {
			var f *spec
			for _, x := range all {
				if x.t == v {
					f = x
				}
			}
			if f == nil {
				foreign = true
			} else {
				res = append(res, f)
			}
		}
		return
	case 11:
		ex, err = g.Exist(ctx, q.t)
		return
	}
	res, err, foreign = lookup(g, m, q, lo, all)
	return
}

type c19Opt struct {
	max, off     int
	lower, upper int // index into anchorPool, -1 = nil
	latest       bool
	filter       int // 0 none, 1 isTemporal, 2 isImmutable, 3 latest (predicate field)
}

func (o c19Opt) build() *storage.LookupOptions {
	lo := &storage.LookupOptions{MaxElements: o.max, Offset: o.off, LatestAnchor: o.latest}
	if o.lower >= 0 {
		t := anchorPool[o.lower]
		lo.LowerAnchor = &t
	}
	if o.upper >= 0 {
		t := anchorPool[o.upper]
		lo.UpperAnchor = &t
	}
	if o.filter > 0 {
		ops := []filter.Operation{filter.IsTemporal, filter.IsImmutable, filter.Latest}
		lo.FilterOptions = &filter.StorageOptions{Operation: ops[o.filter-1], Field: filter.PredicateField}
	}
	return lo
}

// c19SymOpt draws lookup options: one dimension (a skeleton choice) departs
// from the default; page size and offset are solver variables.
func c19SymOpt(name string) c19Opt {
	o := c19Opt{lower: -1, upper: -1}
	switch verif.Choice(name+".dim", 10) {
	case 9: // a combination the driver rejects: both calls must report the error
		o.latest = true
		o.filter = 1
	case 1:
		o.max = verif.Int(name + ".max")
		o.off = verif.Int(name + ".off")
		verif.Assume(verif.And(verif.And(o.max >= 1, o.max <= 2), verif.And(o.off >= 0, o.off <= 2)))
	case 2:
		o.lower = 0
	case 3:
		o.lower = 1 // one nanosecond later
	case 4:
		o.lower = 2 // the instant of 0 spelled in another zone
	case 5:
		o.upper = 0
	case 6:
		o.upper = 1
	case 7:
		o.latest = true
	case 8:
		o.filter = 1 + verif.Choice(name+".filter", 3)
	}
	return o
}

func sameSpecs(a, b []*spec) bool {
	if len(a) != len(b) {
		return false
	}
	for i := range a {
		if a[i] != b[i] {
			return false
		}
	}
	return true
}

// C19 (a'): every read method of the wrapper, two consecutive reads with the
// same arguments and independently chosen options (so that "different options,
// same cache key" is reachable for every dimension of the options), with or
// without a write in between; each read must return what the plain store
// returns at that moment.
func HarnessC19OptionPairs() {
	all := c19Specs()
	ms := memoization.New(memory.NewStore())
	ps := memory.NewStore()
	mg, e1 := ms.NewGraph(ctx, "?g")
	pg, e2 := ps.NewGraph(ctx, "?g")
	verif.Assume(e1 == nil && e2 == nil)
	mg.AddTriples(ctx, triples(all[:4]))
	pg.AddTriples(ctx, triples(all[:4]))
	m := verif.Param("METHOD", -1)
	if m < 0 {
		m = verif.Choice("method", 12)
	}
	q := []*spec{all[0], all[3], all[4]}[verif.Choice("arg", 3)] // the arguments of triple 0, 3 or 4 (4 is absent at first)
	o1, o2 := c19SymOpt("o1"), c19SymOpt("o2")
	// the caller may keep one options value and change its fields between the calls
	reuse := verif.Choice("reuse", 2) == 1
	shared := &storage.LookupOptions{}
	check := func(o c19Opt, tag string) {
		lo := o.build()
		if reuse {
			// field by field, as a caller does (copying the whole struct would also reset
			// whatever the options value keeps to itself)
			shared.MaxElements, shared.Offset = lo.MaxElements, lo.Offset
			shared.LowerAnchor, shared.UpperAnchor = lo.LowerAnchor, lo.UpperAnchor
			shared.LatestAnchor, shared.FilterOptions = lo.LatestAnchor, lo.FilterOptions
			lo = shared
		}
		got, gotE, err1, f1 := c19ReadAll(mg, m, q, lo, all)
		want, wantE, err2, f2 := c19ReadAll(pg, m, q, o.build(), all)
		verif.Assert(verif.And(!f1, !f2), "C19/pairs/result-derived-from-stored-triple")
		verif.Assert((err1 == nil) == (err2 == nil), "C19/pairs/same-error")
		if m == 11 {
			verif.Assert(gotE == wantE, "C19/pairs/exist-same-answer")
		} else {
			verif.Assert(sameSpecs(got, want), "C19/pairs/read-same-answer")
		}
	}
	check(o1, "first")
	verif.Reach("first-read")
	switch verif.Choice("between", 3) {
	case 1:
		mg.AddTriples(ctx, triples(all[4:]))
		pg.AddTriples(ctx, triples(all[4:]))
	case 2:
		mg.RemoveTriples(ctx, triples(all[:1]))
		pg.RemoveTriples(ctx, triples(all[:1]))
	default:
		// the recorded defect: Offset is not part of the cache key
		if o1.lower == o2.lower && o1.upper == o2.upper && o1.latest == o2.latest && o1.filter == o2.filter && verif.And(o1.max == o2.max, o1.off != o2.off) {
			verif.Class("offset-not-in-cache-key")
		}
	}
	check(o2, "second")
	verif.Reach("second-read")
}

// startRead starts read method m (0..10) of g in its own goroutine under cctx
// with an unbuffered result channel.  next receives one element (false when
// the channel is closed); wait returns the method's error once it has returned.
func startRead(cctx context.Context, g storage.Graph, m int, q *spec, lo *storage.LookupOptions) (next func() bool, wait func() error) {
	s, p, o := q.t.Subject(), q.t.Predicate(), q.t.Object()
	errc := make(chan error, 1)
	switch m {
	case 0:
		ch := make(chan *triple.Object)
		go func() { errc <- g.Objects(cctx, s, p, lo, ch) }()
		next = func() bool { _, ok := <-ch; return ok }
	case 1:
		ch := make(chan *node.Node)
		go func() { errc <- g.Subjects(cctx, p, o, lo, ch) }()
		next = func() bool { _, ok := <-ch; return ok }
	case 2, 3, 4:
		ch := make(chan *predicate.Predicate)
		go func() {
			switch m {
			case 2:
				errc <- g.PredicatesForSubject(cctx, s, lo, ch)
			case 3:
				errc <- g.PredicatesForObject(cctx, o, lo, ch)
			default:
				errc <- g.PredicatesForSubjectAndObject(cctx, s, o, lo, ch)
			}
		}()
		next = func() bool { _, ok := <-ch; return ok }
	default:
		ch := make(chan *triple.Triple)
		go func() {
			switch m {
			case 5:
				errc <- g.TriplesForSubject(cctx, s, lo, ch)
			case 6:
				errc <- g.TriplesForPredicate(cctx, p, lo, ch)
			case 7:
				errc <- g.TriplesForObject(cctx, o, lo, ch)
			case 8:
				errc <- g.TriplesForSubjectAndPredicate(cctx, s, p, lo, ch)
			case 9:
				errc <- g.TriplesForPredicateAndObject(cctx, p, o, lo, ch)
			default:
				errc <- g.Triples(cctx, lo, ch)
			}
		}()
		next = func() bool { _, ok := <-ch; return ok }
	}
	return next, func() error { return <-errc }
}

// C19 (c): a read that its caller abandons (takes N elements, cancels the
// context and stops receiving) must not change what later reads return: the
// same read issued again through the same handle returns what the plain store
// returns.
func HarnessC19Abandon() {
	// three results for every read method (the data set of HarnessC09Paging)
	mk := func(s, p, o byte) *spec {
		sp := &spec{sb: s, pb: p, ob: o}
		sp.t = sp.build()
		return sp
	}
	var all []*spec
	for i := 0; i < 3; i++ {
		c := byte('1' + i)
		all = append(all, mk('a', 'p', c), mk(c, 'q', 'z'), mk('v', c, 'w'))
	}
	ms := memoization.New(memory.NewStore())
	ps := memory.NewStore()
	mg, e1 := ms.NewGraph(ctx, "?g")
	pg, e2 := ps.NewGraph(ctx, "?g")
	verif.Assume(e1 == nil && e2 == nil)
	mg.AddTriples(ctx, triples(all))
	pg.AddTriples(ctx, triples(all))
	m := verif.Choice("method", 11)
	q := []*spec{mk('a', 'p', '1'), mk('1', 'q', 'z'), mk('a', 'x', 'x'), mk('x', 'x', 'z'), mk('v', 'x', 'w'),
		mk('a', 'x', 'x'), mk('x', 'q', 'x'), mk('x', 'x', 'z'), mk('a', 'p', 'x'), mk('x', 'q', 'z'), mk('x', 'x', 'x')}[m]
	take := verif.Choice("take", 3)
	warm := verif.Choice("warm", 2) == 1
	lo := &storage.LookupOptions{}
	if warm {
		c19ReadAll(mg, m, q, lo, all)
	}
	cctx, cancel := context.WithCancel(ctx)
	next, wait := startRead(cctx, mg, m, q, lo)
	open := true
	for i := 0; i < take && open; i++ {
		open = next()
	}
	cancel()
	if open {
		wait()
	}
	verif.Reach("abandoned")
	got, _, err1, f1 := c19ReadAll(mg, m, q, lo, all)
	want, _, err2, f2 := c19ReadAll(pg, m, q, lo, all)
	verif.Assert(verif.And(!f1, !f2), "C19/abandon/result-derived-from-stored-triple")
	verif.Assert((err1 == nil) == (err2 == nil), "C19/abandon/same-error")
	verif.Assert(len(want) >= 3, "C19/abandon/three-results")
	verif.Assert(sameSpecs(got, want), "C19/abandon/read-same-answer")
}

// C19 (b): reads running concurrently with a write: one goroutine adds (or
// removes) a triple through the wrapper while another reads through the same
// handle; the engine explores the interleavings.  Once both have returned, the
// same read issued again must return what the plain store returns now.
func HarnessC19Interleave() {
	mk := func(s, p, o byte) *spec {
		sp := &spec{sb: s, pb: p, ob: o}
		sp.t = sp.build()
		return sp
	}
	all := []*spec{mk('a', 'p', 'x'), mk('a', 'p', 'y')}
	ms := memoization.New(memory.NewStore())
	ps := memory.NewStore()
	mg, e1 := ms.NewGraph(ctx, "?g")
	pg, e2 := ps.NewGraph(ctx, "?g")
	verif.Assume(e1 == nil && e2 == nil)
	mg.AddTriples(ctx, triples(all[:1]))
	pg.AddTriples(ctx, triples(all[:1]))
	m := []int{0, 5, 10, 11}[verif.Choice("method", 4)] // Objects, TriplesForSubject, Triples, Exist
	remove := verif.Choice("remove", 2) == 1
	q := all[0]
	if m == 11 && !remove {
		q = all[1]
	}
	lo := &storage.LookupOptions{}
	done := make(chan bool, 2)
	go func() {
		if remove {
			mg.RemoveTriples(ctx, triples(all[:1]))
		} else {
			mg.AddTriples(ctx, triples(all[1:]))
		}
		done <- true
	}()
	go func() {
		c19ReadAll(mg, m, q, lo, all)
		done <- true
	}()
	<-done
	<-done
	if remove {
		pg.RemoveTriples(ctx, triples(all[:1]))
	} else {
		pg.AddTriples(ctx, triples(all[1:]))
	}
	verif.Reach("quiescent")
	got, gotE, err1, f1 := c19ReadAll(mg, m, q, lo, all)
	want, wantE, err2, f2 := c19ReadAll(pg, m, q, lo, all)
	verif.Class("read-overlapping-a-write")
	verif.Assert(verif.And(!f1, !f2), "C19/interleave/result-derived-from-stored-triple")
	verif.Assert((err1 == nil) == (err2 == nil), "C19/interleave/same-error")
	if m == 11 {
		verif.Assert(gotE == wantE, "C19/interleave/exist-same-answer")
	} else {
		verif.Assert(sameSpecs(got, want), "C19/interleave/read-same-answer")
	}
}


// C19 (a''): two reads of (possibly) different methods and different arguments
// through one handle: cache keys must separate the methods and the arguments
// (a node that is subject and object, triples that differ only in the anchor
// or the kind of their predicate).
func HarnessC19MethodPairs() {
	mk := func(s, p, o byte, pk, pa int) *spec {
		sp := &spec{sb: s, pb: p, ob: o, pk: pk, pa: pa}
		sp.t = sp.build()
		return sp
	}
	// arguments: a self-loop at an instant, the same one nanosecond later, the
	// immutable one, and another subject
	// ... and the last one with subject and object exchanged (the same two node
	// arguments in the other order)
	args := []*spec{mk('a', 'p', 'a', 1, 0), mk('a', 'p', 'a', 1, 1), mk('a', 'p', 'a', 0, 0), mk('b', 'p', 'a', 1, 0), mk('a', 'p', 'b', 1, 0)}
	stored := []*spec{args[0], args[3], mk('a', 'q', 'b', 0, 0), mk('b', 'r', 'a', 0, 0)}
	all := append(append([]*spec{}, stored...), args[1], args[2], args[4])
	ms := memoization.New(memory.NewStore())
	ps := memory.NewStore()
	mg, e1 := ms.NewGraph(ctx, "?g")
	pg, e2 := ps.NewGraph(ctx, "?g")
	verif.Assume(e1 == nil && e2 == nil)
	mg.AddTriples(ctx, triples(stored))
	pg.AddTriples(ctx, triples(stored))
	lo := &storage.LookupOptions{}
	for i := 0; i < 2; i++ {
		m := verif.Choice("method", 12)
		q := args[verif.Choice("arg", len(args))]
		got, gotE, err1, f1 := c19ReadAll(mg, m, q, lo, all)
		want, wantE, err2, f2 := c19ReadAll(pg, m, q, lo, all)
		verif.Reach("read")
		verif.Assert(verif.And(!f1, !f2), "C19/methods/result-derived-from-stored-triple")
		verif.Assert((err1 == nil) == (err2 == nil), "C19/methods/same-error")
		if m == 11 {
			verif.Assert(gotE == wantE, "C19/methods/exist-same-answer")
		} else {
			verif.Assert(sameSpecs(got, want), "C19/methods/read-same-answer")
		}
	}
}

// C19 (store operations): the wrapper and a plain store are driven by the same
// history of H store-level and graph-level operations on one graph name -
// create, drop, add one of two triples, list (page size and offset symbolic),
// test existence - where every graph-level operation first
// obtains its handle from the store (Graph(id)), as a client that does not keep
// handles does: verdicts and answers agree at every step, and so do the lists
// of graph names.  (A handle kept across a write through another handle is the
// recorded C19 finding and does not occur here.)
func HarnessC19StoreOps() {
	H := verif.Param("H", 5)
	pool := c19Pool()
	ms := memoization.New(memory.NewStore())
	ps := memory.NewStore()
	names := func(s storage.Store) ([]string, error) {
		ch := make(chan string, 8)
		err := s.GraphNames(ctx, ch)
		var out []string
		for n := range ch {
			out = append(out, n)
		}
		return out, err
	}
	for step := 0; step < H; step++ {
		op := verif.Choice("op", 6)
		switch op {
		case 0:
			_, e1 := ms.NewGraph(ctx, "?g")
			_, e2 := ps.NewGraph(ctx, "?g")
			verif.Assert((e1 == nil) == (e2 == nil), "C19/store/create-same-verdict")
		case 1:
			e1 := ms.DeleteGraph(ctx, "?g")
			e2 := ps.DeleteGraph(ctx, "?g")
			verif.Assert((e1 == nil) == (e2 == nil), "C19/store/drop-same-verdict")
		case 2, 3:
			arg := op - 2
			mg, e1 := ms.Graph(ctx, "?g")
			pg, e2 := ps.Graph(ctx, "?g")
			verif.Assert((e1 == nil) == (e2 == nil), "C19/store/handle-same-verdict")
			if e1 == nil && e2 == nil {
				verif.Assert(mg.AddTriples(ctx, []*triple.Triple{pool[arg]}) == nil, "C19/add-succeeds")
				pg.AddTriples(ctx, []*triple.Triple{pool[arg]})
			}
		default:
			m, arg := 0, 0 // the full listing, or (op 5) the existence of the first triple
			if op == 5 {
				m = 3
			}
			mg, e1 := ms.Graph(ctx, "?g")
			pg, e2 := ps.Graph(ctx, "?g")
			verif.Assert((e1 == nil) == (e2 == nil), "C19/store/handle-same-verdict")
			if e1 != nil || e2 != nil {
				continue
			}
			max, off := 0, 0
			if m == 0 {
				max, off = verif.Int("max"), verif.Int("off")
				verif.Assume(verif.And(verif.And(max >= 0, max <= 2), verif.And(off >= 0, off <= 1)))
			}
			got, gotE, err1 := c19read(mg, m, arg, &storage.LookupOptions{MaxElements: max, Offset: off}, pool)
			want, wantE, err2 := c19read(pg, m, arg, &storage.LookupOptions{MaxElements: max, Offset: off}, pool)
			verif.Reach("read")
			verif.Assert((err1 == nil) == (err2 == nil), "C19/store/same-error")
			if m == 3 {
				verif.Assert(gotE == wantE, "C19/store/exist-same-answer")
			} else {
				verif.Assert(sameSeq(got, want), "C19/store/read-same-answer")
			}
		}
	}
	n1, e1 := names(ms)
	n2, e2 := names(ps)
	verif.Reach("end")
	verif.Assert((e1 == nil) == (e2 == nil) && len(n1) == len(n2), "C19/store/same-graph-names")
}
