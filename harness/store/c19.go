package zzstore

import (
	verif "github.com/google/badwolf/internal/zzverif"
	"github.com/google/badwolf/storage"
	"github.com/google/badwolf/storage/memoization"
	"github.com/google/badwolf/storage/memory"
	"github.com/google/badwolf/triple"
)

// concrete data pool for C19: the quantifier of interest is the history of
// operations, the handles and the lookup options, not the triple contents.
func c19Pool() []*triple.Triple {
	mk := func(s, p, o byte, pk, pa int) *triple.Triple {
		return (&spec{sb: s, pb: p, ob: o, pk: pk, pa: pa}).build()
	}
	// two triples share subject and predicate identifier but not the anchor
	return []*triple.Triple{mk('a', 'p', 'x', 1, 0), mk('a', 'p', 'y', 1, 3), mk('b', 'q', 'x', 0, 0)}
}

type c19Read struct {
	handle, method, arg int
	max, off           int
	seq                int // number of writes before this read
}

func sameSeq(a, b []*triple.Triple) bool {
	if len(a) != len(b) {
		return false
	}
	for i := range a {
		if a[i] != b[i] {
			return false
		}
	}
	return true
}

// read performs read method m on g: 0 Triples, 1 TriplesForSubject, 2 Objects
// (reported as the triples they belong to), 3 Exist.
func c19read(g storage.Graph, m, arg int, lo *storage.LookupOptions, pool []*triple.Triple) ([]*triple.Triple, bool, error) {
	t := pool[arg]
	switch m {
	case 0:
		ch := make(chan *triple.Triple, 16)
		err := g.Triples(ctx, lo, ch)
		var out []*triple.Triple
		for x := range ch {
			out = append(out, x)
		}
		return out, false, err
	case 1:
		ch := make(chan *triple.Triple, 16)
		err := g.TriplesForSubject(ctx, t.Subject(), lo, ch)
		var out []*triple.Triple
		for x := range ch {
			out = append(out, x)
		}
		return out, false, err
	case 2:
		ch := make(chan *triple.Object, 16)
		err := g.Objects(ctx, t.Subject(), t.Predicate(), lo, ch)
		var out []*triple.Triple
		for o := range ch {
			for _, x := range pool {
				if x.Object() == o {
					out = append(out, x)
				}
			}
		}
		return out, false, err
	default:
		ex, err := g.Exist(ctx, t)
		return nil, ex, err
	}
}

// C19 (a): sequential lock-step: a memoized memory store and a plain memory
// store are driven by the same history of H operations (adds, removes, reads
// with symbolic paging options) through one or two handles of the same graph;
// every read must return what the plain store returns at that moment.
func HarnessC19LockStep() {
	H := verif.Param("H", 3)
	pool := c19Pool()
	ms := memoization.New(memory.NewStore())
	ps := memory.NewStore()
	_, e1 := ms.NewGraph(ctx, "?g")
	pg, e2 := ps.NewGraph(ctx, "?g")
	verif.Assume(e1 == nil && e2 == nil)
	nh := verif.Param("HANDLES", 2)
	var hs []storage.Graph
	for i := 0; i < nh; i++ {
		h, err := ms.Graph(ctx, "?g")
		verif.Assume(err == nil)
		hs = append(hs, h)
	}
	writes := 0
	lastWriteHandle := -1
	var reads []c19Read
	if verif.Param("WARM", 1) == 1 {
		// pre-history (not counted in H): two triples added through handle 0, then
		// the full listing read once through every handle
		hs[0].AddTriples(ctx, pool[:2])
		pg.AddTriples(ctx, pool[:2])
		writes++
		lastWriteHandle = 0
		for h := range hs {
			lo := &storage.LookupOptions{}
			c19read(hs[h], 0, 0, lo, pool)
			reads = append(reads, c19Read{h, 0, 0, 0, 0, writes})
		}
	}
	for step := 0; step < H; step++ {
		h := verif.Choice("handle", nh)
		op := verif.Choice("op", 6)
		arg := verif.Choice("arg", len(pool))
		switch op {
		case 0:
			verif.Assert(hs[h].AddTriples(ctx, []*triple.Triple{pool[arg]}) == nil, "C19/add-succeeds")
			pg.AddTriples(ctx, []*triple.Triple{pool[arg]})
			writes++
			lastWriteHandle = h
			continue
		case 1:
			verif.Assert(hs[h].RemoveTriples(ctx, []*triple.Triple{pool[arg]}) == nil, "C19/remove-succeeds")
			pg.RemoveTriples(ctx, []*triple.Triple{pool[arg]})
			writes++
			lastWriteHandle = h
			continue
		}
		m := op - 2
		max, off := verif.Int("max"), verif.Int("off")
		verif.Assume(verif.And(verif.And(max >= 0, max <= 3), verif.And(off >= 0, off <= 3)))
		lo1 := &storage.LookupOptions{MaxElements: max, Offset: off}
		lo2 := &storage.LookupOptions{MaxElements: max, Offset: off}
		got, gotE, err1 := c19read(hs[h], m, arg, lo1, pool)
		want, wantE, err2 := c19read(pg, m, arg, lo2, pool)
		verif.Reach("read")
		// witness classes of the two known defects
		cls := ""
		for _, r := range reads {
			if r.handle == h && r.seq < writes && lastWriteHandle != h {
				cls = "stale-after-write-through-other-handle"
			}
		}
		if cls == "" {
			for _, r := range reads {
				if r.handle == h && r.method == m && c19SameArgs(m, r.arg, arg, pool) && r.seq == writes && r.max == max && r.off != off {
					cls = "offset-not-in-cache-key"
				}
			}
		}
		verif.Class(cls)
		verif.Assert((err1 == nil) == (err2 == nil), "C19/same-error")
		if m == 3 {
			verif.Assert(gotE == wantE, "C19/exist-same-answer")
		} else {
			verif.Assert(sameSeq(got, want), "C19/read-same-answer")
		}
		verif.Class("")
		reads = append(reads, c19Read{h, m, arg, max, off, writes})
	}
}

// c19SameArgs: the two reads pass the same fixed components to method m.
func c19SameArgs(m, a, b int, pool []*triple.Triple) bool {
	switch m {
	case 0:
		return true
	case 1:
		return pool[a].Subject().String() == pool[b].Subject().String()
	case 2:
		return pool[a].Subject().String() == pool[b].Subject().String() && pool[a].Predicate().String() == pool[b].Predicate().String()
	}
	return a == b
}
