package zzstore

import (
	"time"

	verif "github.com/google/badwolf/internal/zzverif"
	"github.com/google/badwolf/bql/planner/filter"
	"github.com/google/badwolf/storage"
	"github.com/google/badwolf/storage/memory"
)

func containsPtr(xs []*spec, x *spec) bool {
	for _, y := range xs {
		if y == x {
			return true
		}
	}
	return false
}

// C09: time window, filter functions and paging, for one lookup method, against
// the same lookup with default options post-processed by the definition.
func HarnessC09Options() {
	m := verif.Param("METHOD", -1)
	if m < 0 {
		m = verif.Choice("method", 10)
	}
	g, err := memory.NewStore().NewGraph(ctx, "?g")
	verif.Assume(err == nil)
	n1 := 1 + verif.Choice("b1.n", verif.Param("PRE", 2))
	var b1 []*spec
	for i := 0; i < n1; i++ {
		b1 = append(b1, symTriple("b1", true))
	}
	q := symTriple("q", true)
	if fixes[m][1] {
		// C09 does not restate predicate-kind matching (that is C02's, where the
		// driver's missing kind comparison is a known finding): no stored
		// predicate shares its identifier with the query predicate of the other kind.
		for _, x := range b1 {
			if x.pk != q.pk {
				verif.Assume(x.pb != q.pb)
			}
		}
	}
	A := verif.Param("ANCHORS", 2)
	lo := &storage.LookupOptions{}
	var lower, upper *time.Time
	if c := verif.Choice("lower", A+1); c > 0 {
		t := anchorPool[c-1]
		lower = &t
	}
	if c := verif.Choice("upper", A+1); c > 0 {
		t := anchorPool[c-1]
		upper = &t
	}
	lo.LowerAnchor, lo.UpperAnchor = lower, upper
	// filter: 0 none, 1 LatestAnchor flag, 2.. operation × field
	ops := []filter.Operation{filter.Latest, filter.IsImmutable, filter.IsTemporal}
	fields := []filter.Field{filter.PredicateField, filter.ObjectField}
	fc := verif.Choice("filter", 2+len(ops)*len(fields))
	var fop filter.Operation
	var ffield filter.Field
	switch {
	case fc == 1:
		lo.LatestAnchor = true
		fop, ffield = filter.Latest, filter.PredicateField
	case fc >= 2:
		fop, ffield = ops[(fc-2)/len(fields)], fields[(fc-2)%len(fields)]
		lo.FilterOptions = &filter.StorageOptions{Operation: fop, Field: ffield}
	}
	n, k := 0, 0
	if verif.Param("PAGING", 1) == 1 {
		n, k = verif.Choice("n", 4), verif.Choice("k", 4)
	}

	g.AddTriples(ctx, triples(b1))
	base, err0, _ := lookup(g, m, q, storage.DefaultLookup, b1)
	unpaged, err1, f1 := lookup(g, m, q, lo, b1)
	verif.Reach("looked-up")
	verif.Assert(err0 == nil && err1 == nil && !f1, "C09/lookup-succeeds")
	// the options value is left as it was
	verif.Assert(lo.LowerAnchor == lower && lo.UpperAnchor == upper && lo.LatestAnchor == (fc == 1) && (lo.FilterOptions == nil) == (fc < 2), "C09/options-not-modified")

	inWindow := func(x *spec) bool {
		if x.pk == 0 {
			return true
		}
		a := anchorPool[x.pa]
		return !(lower != nil && a.Before(*lower)) && !(upper != nil && a.After(*upper))
	}
	// the predicate the filter functions look at
	filtPK := func(x *spec) (kind int, has bool) {
		if ffield == filter.PredicateField {
			return x.pk, true
		}
		if x.ok == 2 {
			return 0, true // predicate-valued objects of the universe are immutable
		}
		return 0, false
	}
	expected := func(x *spec) bool {
		if !inWindow(x) {
			return false
		}
		if fc == 0 {
			return true
		}
		kind, has := filtPK(x)
		if !has {
			return false
		}
		switch fop {
		case filter.IsImmutable:
			return kind == 0
		case filter.IsTemporal:
			return kind == 1
		}
		// latest: temporal, and no candidate with the same identifier anchored later
		if kind != 1 {
			return false
		}
		r := true
		for _, y := range base {
			if !inWindow(y) {
				continue
			}
			if yk, yh := filtPK(y); !yh || yk != 1 {
				continue
			}
			if anchorPool[y.pa].After(anchorPool[x.pa]) {
				r = verif.And(r, y.pb != x.pb)
			}
		}
		return r
	}
	for _, x := range base {
		if fc != 0 && fixes[m][1] && x.pk == 1 && q.pk == 1 && x.pa != q.pa {
			verif.Class("filter-compares-predicate-text-not-instant")
		}
		if containsPtr(unpaged, x) {
			verif.Assert(expected(x), "C09/kept-only-if-selected")
		} else {
			verif.Assert(!expected(x), "C09/selected-is-kept")
		}
		verif.Class("")
	}
	for _, x := range unpaged {
		verif.Assert(containsPtr(base, x), "C09/result-subset-of-default-result")
	}

	// paging
	lo.MaxElements, lo.Offset = n, k
	page, err2, _ := lookup(g, m, q, lo, b1)
	verif.Assert(err2 == nil, "C09/paged-lookup-succeeds")
	want := unpaged
	if n > 0 {
		from, to := k*n, k*n+n
		if from > len(unpaged) {
			from = len(unpaged)
		}
		if to > len(unpaged) {
			to = len(unpaged)
		}
		want = unpaged[from:to]
	}
	verif.Assert(len(page) == len(want), "C09/page-size")
	if len(page) == len(want) {
		for i := range page {
			verif.Assert(page[i] == want[i], "C09/page-is-kth-block")
		}
	}
}

// C09: page arithmetic over the full int range: with one stored triple, any
// page k >= 1 of size n >= 1 is empty.
func HarnessC09PageOverflow() {
	g, err := memory.NewStore().NewGraph(ctx, "?g")
	verif.Assume(err == nil)
	a := symTripleKinds("a", 0, 0, 0)
	g.AddTriples(ctx, triples([]*spec{a}))
	n, k := verif.Int("n"), verif.Int("k")
	verif.Assume(verif.And(verif.And(n > 0, n < 1<<32), verif.And(k > 0, k < 1<<32)))
	if n*k <= 0 {
		verif.Class("page-product-overflows-int")
	}
	lo := &storage.LookupOptions{MaxElements: n, Offset: k}
	res, err2, _ := lookup(g, 5, a, lo, []*spec{a})
	verif.Reach("looked-up")
	verif.Assert(err2 == nil, "C09/overflow/lookup-succeeds")
	verif.Assert(len(res) == 0, "C09/overflow/far-page-is-empty")
}

// C09 (latest): two or three stored temporal triples compete: latest keeps,
// per predicate identifier, exactly those with the greatest anchor.
func HarnessC09Latest() {
	g, err := memory.NewStore().NewGraph(ctx, "?g")
	verif.Assume(err == nil)
	A := verif.Param("ANCHORS", 2)
	n := 2 + verif.Choice("n", verif.Param("EXTRA", 0)+1)
	var b1 []*spec
	for i := 0; i < n; i++ {
		b1 = append(b1, symTripleKinds("b1", 1, verif.Choice("pa", A), 0))
	}
	m := []int{5, 6, 0}[verif.Choice("method", 3)] // TriplesForSubject, TriplesForPredicate, Objects
	q := symTripleKinds("q", 1, verif.Choice("qa", A), 0)
	lo := &storage.LookupOptions{}
	if verif.Choice("how", 2) == 0 {
		lo.LatestAnchor = true
	} else {
		lo.FilterOptions = &filter.StorageOptions{Operation: filter.Latest, Field: filter.PredicateField}
	}
	g.AddTriples(ctx, triples(b1))
	base, err0, _ := lookup(g, m, q, storage.DefaultLookup, b1)
	latest0, fo0 := lo.LatestAnchor, lo.FilterOptions
	got, err1, _ := lookup(g, m, q, lo, b1)
	verif.Reach("looked-up")
	verif.Assert(err0 == nil && err1 == nil, "C09/latest/lookup-succeeds")
	// the options value is the caller's: once the lookup has returned it is as it was passed
	// (also when nothing was selected), so that the next lookup through it means the same
	verif.Assert(lo.LatestAnchor == latest0 && lo.FilterOptions == fo0 && lo.LowerAnchor == nil && lo.UpperAnchor == nil, "C09/latest/options-as-passed-after-return")
	for _, x := range base {
		if fixes[m][1] && x.pa != q.pa {
			// the filter compares predicate text with the query predicate (known, see HarnessC09Options)
			verif.Class("filter-compares-predicate-text-not-instant")
		}
		want := true
		for _, y := range base {
			if anchorPool[y.pa].After(anchorPool[x.pa]) {
				want = verif.And(want, y.pb != x.pb)
			}
		}
		if containsPtr(got, x) {
			verif.Assert(want, "C09/latest/kept-only-if-greatest-anchor")
		} else {
			verif.Assert(!want, "C09/latest/greatest-anchor-is-kept")
		}
		verif.Class("")
	}
}

// C09 (paging): a graph with seven results for every lookup method; page size
// n and page offset k are solver variables: page k is the k-th block of n
// elements of the unpaged result in its order, for every method.
func HarnessC09Paging() {
	g, err := memory.NewStore().NewGraph(ctx, "?g")
	verif.Assume(err == nil)
	mk := func(s, p, o byte) *spec {
		sp := &spec{sb: s, pb: p, ob: o}
		sp.t = sp.build()
		return sp
	}
	var all []*spec
	M := verif.Param("M", 7)
	for i := 0; i < M; i++ {
		c := byte('1' + i)
		all = append(all, mk('a', 'p', c)) // same subject and predicate
		all = append(all, mk(c, 'q', 'z')) // same predicate and object
		all = append(all, mk('v', c, 'w')) // same subject and object
	}
	g.AddTriples(ctx, triples(all))
	m := verif.Param("METHOD", -1)
	if m < 0 {
		m = verif.Choice("method", 11)
	}
	q := []*spec{mk('a', 'p', '1'), mk('1', 'q', 'z'), mk('a', 'x', 'x'), mk('x', 'x', 'z'), mk('v', 'x', 'w'),
		mk('a', 'x', 'x'), mk('x', 'q', 'x'), mk('x', 'x', 'z'), mk('a', 'p', 'x'), mk('x', 'q', 'z'), mk('x', 'x', 'x')}[m]
	read := func(lo *storage.LookupOptions) ([]*spec, error) {
		res, _, err, foreign := c19ReadAll(g, m, q, lo, all)
		verif.Assert(!foreign, "C09/paging/result-derived-from-stored-triple")
		return res, err
	}
	unpaged, err0 := read(&storage.LookupOptions{})
	verif.Assert(err0 == nil, "C09/paging/lookup-succeeds")
	n, k := verif.Int("n"), verif.Int("k")
	verif.Assume(verif.And(verif.And(n >= 1, n <= verif.Param("N", 4)), verif.And(k >= 0, k <= verif.Param("KMAX", 4))))
	got, err1 := read(&storage.LookupOptions{MaxElements: n, Offset: k})
	verif.Reach("paged")
	verif.Assert(err1 == nil, "C09/paging/lookup-succeeds")
	// concrete n, k on this path (each comparison is a solver-decided branch)
	cn, ck := 0, 0
	for v := 1; v <= verif.Param("N", 4); v++ {
		if n == v {
			cn = v
		}
	}
	for v := 0; v <= verif.Param("KMAX", 4); v++ {
		if k == v {
			ck = v
		}
	}
	lo, hi := cn*ck, cn*ck+cn
	if lo > len(unpaged) {
		lo = len(unpaged)
	}
	if hi > len(unpaged) {
		hi = len(unpaged)
	}
	verif.Assert(sameSpecs(got, unpaged[lo:hi]), "C09/paging/page-is-the-kth-block")
}


// C09 (filters on the object field): triples whose objects are predicates
// (immutable, or temporal at an anchor of the pool) under predicates of their
// own (immutable or temporal): isImmutable / isTemporal / latest with
// Field=ObjectField look at the predicate in the object, not at the triple's
// own predicate.
func HarnessC09ObjectFilter() {
	g, err := memory.NewStore().NewGraph(ctx, "?g")
	verif.Assume(err == nil)
	A := verif.Param("ANCHORS", 2)
	n := 2 + verif.Choice("n", verif.Param("EXTRA", 0)+1)
	var b1 []*spec
	for i := 0; i < n; i++ {
		sp := &spec{sb: 'a', pb: verif.Byte("b1.p"), ob: verif.Byte("b1.o")}
		verif.Assume(verif.And(alpha(sp.pb), alpha(sp.ob)))
		sp.pk = verif.Choice("pk", 2)
		if sp.pk == 1 {
			sp.pa = verif.Choice("pa", A)
		}
		sp.ok = 2 + verif.Choice("ok", 2)
		if sp.ok == 3 {
			sp.oa = verif.Choice("oa", A)
		}
		sp.t = sp.build()
		b1 = append(b1, sp)
	}
	m := []int{5, 10}[verif.Choice("method", 2)] // TriplesForSubject, Triples
	ops := []filter.Operation{filter.Latest, filter.IsImmutable, filter.IsTemporal}
	fop := ops[verif.Choice("op", 3)]
	lo := &storage.LookupOptions{FilterOptions: &filter.StorageOptions{Operation: fop, Field: filter.ObjectField}}
	g.AddTriples(ctx, triples(b1))
	base, _, err0, _ := c19ReadAll(g, m, b1[0], storage.DefaultLookup, b1)
	got, _, err1, _ := c19ReadAll(g, m, b1[0], lo, b1)
	verif.Reach("looked-up")
	verif.Assert(err0 == nil && err1 == nil, "C09/object-filter/lookup-succeeds")
	for _, x := range base {
		want := true
		switch fop {
		case filter.IsImmutable:
			want = x.ok == 2
		case filter.IsTemporal:
			want = x.ok == 3
		default:
			if x.ok != 3 {
				want = false
				break
			}
			for _, y := range base {
				if y.ok == 3 && anchorPool[y.oa].After(anchorPool[x.oa]) {
					want = verif.And(want, y.ob != x.ob)
				}
			}
		}
		if containsPtr(got, x) {
			verif.Assert(want, "C09/object-filter/kept-only-if-selected")
		} else {
			verif.Assert(!want, "C09/object-filter/selected-is-kept")
		}
	}
	for _, x := range got {
		verif.Assert(containsPtr(base, x), "C09/object-filter/result-subset-of-default-result")
	}
}
