package zzstore

import (
	"bytes"

	verif "github.com/google/badwolf/internal/zzverif"
	bio "github.com/google/badwolf/io"
	"github.com/google/badwolf/storage/memory"
	"github.com/google/badwolf/triple/literal"
)

// C05 (e): writing a graph as text and reading that text into an empty graph
// reproduces exactly the same set of triples, and both report that number.
func HarnessC05Graph() {
	st := memory.NewStore()
	g1, e1 := st.NewGraph(ctx, "?src")
	g2, e2 := st.NewGraph(ctx, "?dst")
	verif.Assume(e1 == nil && e2 == nil)
	n := verif.Choice("n", verif.Param("K", 2)+1)
	var ds []*spec
	for i := 0; i < n; i++ {
		ds = append(ds, symTriple("d", true))
	}
	if verif.Param("WIDE", 0) == 1 {
		// component bytes over the printable 7-bit range instead of {a,b}
		ds = nil
		for i := 0; i < n; i++ {
			ds = append(ds, wideTriple("w"))
		}
	}
	g1.AddTriples(ctx, triples(ds))
	var buf bytes.Buffer
	var wn, rn int
	var werr, rerr error
	if !noPanic("C05/graph/no-panic", func() {
		wn, werr = bio.WriteGraph(ctx, &buf, g1)
		rn, rerr = bio.ReadIntoGraph(ctx, g2, bytes.NewReader(buf.Bytes()), literal.DefaultBuilder())
	}) {
		return
	}
	verif.Reach("round-trip")
	verif.Assert(werr == nil && rerr == nil, "C05/graph/write-and-read-succeed")
	// number of distinct triples
	firsts := make([]bool, len(ds))
	for i := range ds {
		f := true
		for j := 0; j < i; j++ {
			f = verif.And(f, !ds[i].eq(ds[j]))
		}
		firsts[i] = f
	}
	verif.Assert(wn == verif.Count(firsts...), "C05/graph/write-count")
	verif.Assert(rn == wn, "C05/graph/read-count")
	for _, d := range ds {
		ex, err := g2.Exist(ctx, d.t)
		verif.Assert(err == nil && ex, "C05/graph/every-triple-read-back")
	}
	lst, _ := listing(g2)
	verif.Assert(len(lst) == wn, "C05/graph/nothing-else-read-back")
}

// wideTriple: /t<s> "p"@[] with an object that is a node /t<o> or a text "o",
// s, p, o single bytes over the printable 7-bit range (without the characters
// the documented domain excludes: '<' '>' in node ids, '"' in text).
func wideTriple(name string) *spec {
	sp := &spec{sb: verif.Byte(name + ".s"), pb: verif.Byte(name + ".p"), ob: verif.Byte(name + ".o")}
	pr := func(c byte) bool { return verif.And(c > 0x20, c < 0x7f) }
	verif.Assume(verif.And(pr(sp.sb), verif.And(pr(sp.pb), pr(sp.ob))))
	verif.Assume(verif.And(verif.And(sp.sb != '<', sp.sb != '>'), verif.And(sp.pb != '"', sp.pb != '\\')))
	sp.ok = verif.Choice(name+".ok", 2)
	if sp.ok == 0 {
		verif.Assume(verif.And(sp.ob != '<', sp.ob != '>'))
	} else {
		verif.Assume(verif.And(sp.ob != '"', sp.ob != '\\'))
	}
	sp.t = sp.build()
	return sp
}

// C15 (c): the line-oriented reader loads exactly the triples on the lines
// before the first malformed line and reports that count: GOOD valid lines
// (symbolic triples), then a line cut at a symbolic position, then one more
// valid line.
func HarnessC15Reader() {
	st := memory.NewStore()
	g, err := st.NewGraph(ctx, "?dst")
	verif.Assume(err == nil)
	good := verif.Choice("good", verif.Param("GOOD", 2)+1)
	var ds []*spec
	text := ""
	for i := 0; i < good; i++ {
		d := symTripleKinds("d", 0, 0, verif.Choice("ok", 2))
		ds = append(ds, d)
		text += d.t.String() + "\n"
	}
	// the text either holds a malformed line followed by one more valid line, or
	// is well formed throughout; its last line may lack the final newline
	malformed := verif.Choice("malformed", 2) == 1
	after := symTripleKinds("after", 0, 0, 0)
	if malformed {
		bad := symTripleKinds("bad", 0, 0, 0).t.String()
		cut := verif.Choice("cut", 3)
		cuts := []int{1, len(bad) / 2, len(bad) - 1}
		text += bad[:cuts[cut]] + "\n"
	}
	text += after.t.String()
	if verif.Choice("final-newline", 2) == 1 {
		text += "\n"
	}
	var n int
	var rerr error
	if !noPanic("C15/reader/no-panic", func() {
		n, rerr = bio.ReadIntoGraph(ctx, g, bytes.NewReader([]byte(text)), literal.DefaultBuilder())
	}) {
		return
	}
	if !malformed {
		verif.Reach("read-well-formed")
		verif.Assert(rerr == nil, "C15/reader/well-formed-text-is-read")
		verif.Assert(n == good+1, "C15/reader/reports-every-line")
		ex, e := g.Exist(ctx, after.t)
		verif.Assert(e == nil && ex, "C15/reader/last-line-is-loaded")
		return
	}
	verif.Reach("read")
	verif.Assert(rerr != nil, "C15/reader/malformed-line-is-an-error")
	verif.Assert(n == good, "C15/reader/reports-lines-before-the-malformed-one")
	for _, d := range ds {
		ex, e := g.Exist(ctx, d.t)
		verif.Assert(e == nil && ex, "C15/reader/lines-before-are-loaded")
	}
	firsts := make([]bool, len(ds))
	for i := range ds {
		f := true
		for j := 0; j < i; j++ {
			f = verif.And(f, !ds[i].eq(ds[j]))
		}
		firsts[i] = f
	}
	lst, _ := listing(g)
	verif.Assert(len(lst) == verif.Count(firsts...), "C15/reader/nothing-after-the-malformed-line-is-loaded")
}
