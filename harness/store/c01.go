package zzstore

import (
	verif "github.com/google/badwolf/internal/zzverif"
	"github.com/google/badwolf/storage"
	"github.com/google/badwolf/storage/memory"
	"github.com/google/badwolf/triple"
)

// C01 (A): the store as a map from names to graphs: a history of H operations
// with symbolic one-byte names against a reference list of names.
func HarnessC01Names() {
	st := memory.NewStore()
	H := verif.Param("H", 3)
	var ref []byte // reference: names created and not dropped (all distinct)
	has := func(n byte) bool {
		r := false
		for _, x := range ref {
			r = verif.Or(r, x == n)
		}
		return r
	}
	for step := 0; step < H; step++ {
		n := verif.Byte("name")
		verif.Assume(alpha(n))
		name := string([]byte{n})
		present := has(n)
		switch verif.Choice("op", 4) {
		case 0: // NewGraph
			_, err := st.NewGraph(ctx, name)
			verif.Assert((err != nil) == present, "C01/names/new-fails-iff-exists")
			if err == nil {
				ref = append(ref, n)
			}
		case 1: // Graph
			g, err := st.Graph(ctx, name)
			verif.Assert((err == nil) == present, "C01/names/get-succeeds-iff-exists")
			if err == nil {
				verif.Assert(g != nil && g.ID(ctx) == name, "C01/names/get-returns-that-graph")
			}
		case 2: // DeleteGraph
			err := st.DeleteGraph(ctx, name)
			verif.Assert((err == nil) == present, "C01/names/drop-succeeds-iff-exists")
			if err == nil {
				var nr []byte
				for _, x := range ref {
					if x != n {
						nr = append(nr, x)
					}
				}
				ref = nr
			}
		default: // GraphNames
			ch := make(chan string, 8)
			err := st.GraphNames(ctx, ch)
			verif.Assert(err == nil, "C01/names/listing-succeeds")
			var got []string
			for s := range ch {
				got = append(got, s)
			}
			verif.Assert(len(got) == len(ref), "C01/names/listing-count")
			for _, s := range got {
				verif.Assert(len(s) == 1 && has(s[0]), "C01/names/listed-exists")
			}
		}
	}
	verif.Reach("history-done")
}

// present after Add(b1); Remove(b2); op3(b3)
func presentAfter(x *spec, b1, b2, b3 []*spec, op3 int) bool {
	p := verif.And(anyEq(x, b1), !anyEq(x, b2))
	if op3 == 0 {
		return verif.Or(p, anyEq(x, b3))
	}
	return verif.And(p, !anyEq(x, b3))
}

// C01 (B): triples of one graph: pre-state built by the real code from
// Add(b1); Remove(b2), then one arbitrary operation (Add or Remove of b3), and
// an arbitrary operation on a second graph of the same store.  Exist and the
// full listing must equal the reference set semantics.
func HarnessC01Triples() {
	temporal := verif.Param("TEMPORAL", 1) == 1
	st := memory.NewStore()
	g1, err1 := st.NewGraph(ctx, "?g1")
	g2, err2 := st.NewGraph(ctx, "?g2")
	verif.Assume(err1 == nil && err2 == nil)
	mk := func(name string, max int) []*spec {
		n := verif.Choice(name+".n", max+1)
		var b []*spec
		for i := 0; i < n; i++ {
			b = append(b, symTriple(name, temporal))
		}
		return b
	}
	B := verif.Param("B", 1)
	b1, b2, b3 := mk("b1", verif.Param("PRE", 2)), mk("b2", verif.Param("RB", B)), mk("b3", B)
	// the other graph gets one triple of fixed kinds (symbolic bytes) plus b1
	other := []*spec{symTripleKinds("other", 0, 0, 0)}
	op3 := verif.Choice("op3", 2)
	ok := noPanic("C01/triples/no-panic", func() {
		verif.Assert(g1.AddTriples(ctx, triples(b1)) == nil, "C01/triples/add-succeeds")
		verif.Assert(g1.RemoveTriples(ctx, triples(b2)) == nil, "C01/triples/remove-succeeds")
		// something happens to the other graph
		g2.AddTriples(ctx, triples(b1))
		g2.AddTriples(ctx, triples(other))
		g2.RemoveTriples(ctx, triples(b3))
		if op3 == 0 {
			verif.Assert(g1.AddTriples(ctx, triples(b3)) == nil, "C01/triples/add-succeeds")
		} else {
			verif.Assert(g1.RemoveTriples(ctx, triples(b3)) == nil, "C01/triples/remove-succeeds")
		}
	})
	if !ok {
		return
	}
	verif.Reach("operated")
	var all []*spec
	all = append(append(append(all, b1...), b2...), b3...)
	probe := symTriple("probe", temporal)
	all = append(all, probe)
	// existence test
	for _, x := range all {
		ex, err := g1.Exist(ctx, x.t)
		verif.Assert(err == nil, "C01/triples/exist-succeeds")
		verif.Assert(ex == presentAfter(x, b1, b2, b3, op3), "C01/triples/exist-iff-in-set")
	}
	// full listing: every listed triple is in the set, no triple twice, and
	// every triple of the set is listed
	lst, err := listing(g1)
	verif.Assert(err == nil, "C01/triples/listing-succeeds")
	specOf := func(t *triple.Triple) *spec {
		for _, x := range all {
			if x.t == t {
				return x
			}
		}
		return nil
	}
	var listed []*spec
	for _, t := range lst {
		x := specOf(t)
		verif.Assert(x != nil, "C01/triples/listed-was-added")
		if x == nil {
			return
		}
		verif.Assert(presentAfter(x, b1, b2, b3, op3), "C01/triples/listed-is-in-set")
		verif.Assert(!anyEq(x, listed), "C01/triples/listed-once")
		listed = append(listed, x)
	}
	for _, x := range all {
		verif.Assert(verif.Implies(presentAfter(x, b1, b2, b3, op3), anyEq(x, listed)), "C01/triples/in-set-is-listed")
	}
	_ = storage.DefaultLookup
}

// C01 (C): a dropped and re-created graph starts empty.
func HarnessC01Recreate() {
	st := memory.NewStore()
	g, err := st.NewGraph(ctx, "?g")
	verif.Assume(err == nil)
	a := symTriple("a", true)
	g.AddTriples(ctx, []*triple.Triple{a.t})
	// creating an existing name, getting or dropping a missing one: an error and no effect
	_, cerr := st.NewGraph(ctx, "?g")
	verif.Assert(cerr != nil, "C01/recreate/create-of-existing-name-fails")
	_, gerr := st.Graph(ctx, "?missing")
	verif.Assert(gerr != nil && st.DeleteGraph(ctx, "?missing") != nil, "C01/recreate/get-and-drop-of-missing-name-fail")
	h, herr := st.Graph(ctx, "?g")
	verif.Assert(herr == nil, "C01/recreate/failed-create-has-no-effect")
	if herr == nil {
		ex, _ := h.Exist(ctx, a.t)
		lst, _ := listing(h)
		verif.Assert(ex && len(lst) == 1, "C01/recreate/failed-create-has-no-effect")
		b := symTriple("b", true)
		g.AddTriples(ctx, []*triple.Triple{b.t})
		ex2, _ := h.Exist(ctx, b.t)
		verif.Assert(ex2, "C01/recreate/failed-create-has-no-effect")
		g.RemoveTriples(ctx, []*triple.Triple{b.t})
		g.AddTriples(ctx, []*triple.Triple{a.t})
	}
	verif.Assert(st.DeleteGraph(ctx, "?g") == nil, "C01/recreate/drop-succeeds")
	g2, err := st.NewGraph(ctx, "?g")
	verif.Assert(err == nil, "C01/recreate/create-again-succeeds")
	if err != nil {
		return
	}
	verif.Reach("recreated")
	lst, _ := listing(g2)
	verif.Assert(len(lst) == 0, "C01/recreate/starts-empty")
	ex, _ := g2.Exist(ctx, a.t)
	verif.Assert(!ex, "C01/recreate/old-triple-gone")
}

// C01 (B'): triples that differ only in the predicate's kind or instant are
// different triples, also inside one batch: t1 and t2 share subject,
// predicate identifier and object (symbolic bytes) and differ at most in kind
// and anchor (immutable, an instant, one nanosecond later, the same instant in
// another zone); t3 is arbitrary.  Add them in one batch, remove a batch, and
// compare Exist and the listing with the reference set.
func HarnessC01KindBatch() {
	g, err := memory.NewStore().NewGraph(ctx, "?g")
	verif.Assume(err == nil)
	kinds := [][2]int{{0, 0}, {1, 0}, {1, 1}, {1, 2}}
	k1 := kinds[verif.Choice("k1", len(kinds))]
	k2 := kinds[verif.Choice("k2", len(kinds))]
	t1 := symTripleKinds("t", k1[0], k1[1], 0)
	t2 := &spec{sb: t1.sb, pb: t1.pb, ob: t1.ob, pk: k2[0], pa: k2[1]}
	t2.t = t2.build()
	t3 := symTriple("u", true)
	added := []*spec{t1, t2, t3}
	var removed []*spec
	switch verif.Choice("remove", 5) {
	case 0:
		removed = []*spec{t1, t2}
	case 1:
		removed = []*spec{t1}
	case 2:
		removed = []*spec{t2, t3}
	case 3:
		removed = []*spec{t3, t1, t1}
	}
	ok := noPanic("C01/kinds/no-panic", func() {
		verif.Assert(g.AddTriples(ctx, triples(added)) == nil, "C01/kinds/add-succeeds")
		verif.Assert(g.RemoveTriples(ctx, triples(removed)) == nil, "C01/kinds/remove-succeeds")
	})
	if !ok {
		return
	}
	verif.Reach("operated")
	present := func(x *spec) bool { return verif.And(anyEq(x, added), !anyEq(x, removed)) }
	for _, x := range added {
		ex, err := g.Exist(ctx, x.t)
		verif.Assert(err == nil, "C01/kinds/exist-succeeds")
		verif.Assert(ex == present(x), "C01/kinds/exist-iff-in-set")
	}
	lst, err := listing(g)
	verif.Assert(err == nil, "C01/kinds/listing-succeeds")
	var listed []*spec
	for _, t := range lst {
		var x *spec
		for _, y := range added {
			if y.t == t {
				x = y
			}
		}
		verif.Assert(x != nil, "C01/kinds/listed-was-added")
		if x == nil {
			return
		}
		verif.Assert(present(x), "C01/kinds/listed-is-in-set")
		verif.Assert(!anyEq(x, listed), "C01/kinds/listed-once")
		listed = append(listed, x)
	}
	for _, x := range added {
		verif.Assert(verif.Implies(present(x), anyEq(x, listed)), "C01/kinds/in-set-is-listed")
	}
}
