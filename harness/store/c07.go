package zzstore

import (
	"strconv"
	"sync"

	verif "github.com/google/badwolf/internal/zzverif"
	"github.com/google/badwolf/bql/planner/filter"
	"github.com/google/badwolf/storage"
	"github.com/google/badwolf/storage/memory"
	"github.com/google/badwolf/triple"
	"github.com/google/badwolf/triple/node"
)

// C07: two goroutines operate on one graph / one store; the engine explores
// every interleaving at synchronisation-operation granularity (schedule mode)
// and checks happens-before races.  The data is concrete; the schedule is the
// quantified dimension.
func HarnessC07Concurrent() {
	pool := c19Pool()
	st := memory.NewStore()
	g, err := st.NewGraph(ctx, "?g")
	verif.Assume(err == nil)
	g.AddTriples(ctx, pool[:1])
	sc := verif.Param("SCENARIO", -1)
	if sc < 0 {
		sc = verif.Choice("scenario", 9)
	}
	var wg sync.WaitGroup
	// natively (replay of a schedule-dependent counterexample) the operations of
	// the read-against-writer scenarios are repeated so that a narrow window has a
	// chance to be hit; under the engine the scheduler explores the interleavings
	reps := 1
	if !verif.Symbolic() && (sc == 6 || sc == 7) {
		reps = 2000
	}
	run := func(fs ...func()) {
		for _, f := range fs {
			f := f
			wg.Add(1)
			go func() {
				defer wg.Done()
				for i := 0; i < reps; i++ {
					f()
				}
			}()
		}
		wg.Wait()
	}
	list := func(lo *storage.LookupOptions) ([]*triple.Triple, error) {
		ch := make(chan *triple.Triple, 16)
		err := g.Triples(ctx, lo, ch)
		var out []*triple.Triple
		for t := range ch {
			out = append(out, t)
		}
		return out, err
	}
	has := func(ts []*triple.Triple, t *triple.Triple) bool {
		for _, x := range ts {
			if x == t {
				return true
			}
		}
		return false
	}
	switch sc {
	case 0: // a batch add is observed all-or-nothing by a concurrent listing
		var seen []*triple.Triple
		run(func() { g.AddTriples(ctx, pool[1:3]) }, func() { seen, _ = list(storage.DefaultLookup) })
		verif.Reach("done")
		verif.Assert(has(seen, pool[1]) == has(seen, pool[2]), "C07/batch-add-is-atomic-for-lookups")
		verif.Assert(has(seen, pool[0]), "C07/lookup-sees-earlier-writes")
	case 1: // add and remove of the same triple: the final state is one of the two orders
		run(func() { g.AddTriples(ctx, pool[1:2]) }, func() { g.RemoveTriples(ctx, pool[1:2]) })
		verif.Reach("done")
		all, _ := list(storage.DefaultLookup)
		ex, _ := g.Exist(ctx, pool[1])
		verif.Assert(ex == has(all, pool[1]), "C07/exist-and-listing-agree-after-quiescence")
	case 2: // remove racing with a lookup: no result from a half-removed triple
		var seen []*triple.Triple
		var lerr error
		run(func() { g.RemoveTriples(ctx, pool[:1]) }, func() {
			ch := make(chan *triple.Triple, 16)
			lerr = g.TriplesForSubject(ctx, pool[0].Subject(), storage.DefaultLookup, ch)
			for t := range ch {
				seen = append(seen, t)
			}
		})
		verif.Reach("done")
		verif.Assert(lerr == nil && len(seen) <= 1, "C07/lookup-during-remove")
	case 3: // store operations: create, get, drop, list concurrently
		var e1, e2 error
		run(func() { _, e1 = st.NewGraph(ctx, "?h") }, func() { _, e2 = st.NewGraph(ctx, "?h") })
		verif.Reach("done")
		verif.Assert((e1 == nil) != (e2 == nil), "C07/exactly-one-concurrent-create-wins")
		run(func() { st.DeleteGraph(ctx, "?h") }, func() {
			ch := make(chan string, 8)
			st.GraphNames(ctx, ch)
			for range ch {
			}
		})
		// two concurrent drops of one existing graph: exactly one succeeds
		_, e0 := st.NewGraph(ctx, "?k")
		verif.Assume(e0 == nil)
		var d1, d2 error
		run(func() { d1 = st.DeleteGraph(ctx, "?k") }, func() { d2 = st.DeleteGraph(ctx, "?k") })
		verif.Assert((d1 == nil) != (d2 == nil), "C07/exactly-one-concurrent-drop-wins")
		// a get racing with a drop returns the graph or an error, and the name is gone afterwards
		_, e0 = st.NewGraph(ctx, "?k")
		verif.Assume(e0 == nil)
		run(func() { st.DeleteGraph(ctx, "?k") }, func() { st.Graph(ctx, "?k") })
		_, ge := st.Graph(ctx, "?k")
		verif.Assert(ge != nil, "C07/dropped-graph-is-gone")
		// a create racing with a client that gets the graph by name and writes to it:
		// whoever obtains the graph obtains a complete one
		added := false
		run(func() { st.NewGraph(ctx, "?m") }, func() {
			if g2, err := st.Graph(ctx, "?m"); err == nil {
				added = g2.AddTriples(ctx, pool[1:2]) == nil
			}
		})
		gm, gerr := st.Graph(ctx, "?m")
		verif.Assert(gerr == nil, "C07/created-graph-is-there")
		if gerr == nil {
			ex, _ := gm.Exist(ctx, pool[1])
			verif.Assert(ex == added, "C07/write-through-a-handle-obtained-during-create-is-kept")
		}
	case 4: // two lookups sharing one LookupOptions value with LatestAnchor
		verif.Class("two-lookups-sharing-one-LookupOptions-with-LatestAnchor")
		lo := &storage.LookupOptions{LatestAnchor: true}
		var e1, e2 error
		run(func() { _, e1 = list(lo) }, func() { _, e2 = list(lo) })
		verif.Reach("done")
		verif.Assert(e1 == nil && e2 == nil, "C07/shared-options/lookups-succeed")
		verif.Assert(lo.FilterOptions == nil && lo.LatestAnchor, "C07/shared-options/not-modified")
	case 6, 7: // any read method against a writer: the twelve reads of the driver, one at a time
		mk := func(s, p, o byte) *spec {
			sp := &spec{sb: s, pb: p, ob: o}
			sp.t = sp.build()
			return sp
		}
		stable, b1, b2 := mk('a', 'p', 'x'), mk('a', 'p', 'y'), mk('a', 'p', 'z')
		all := []*spec{stable, b1, b2}
		g2, err := st.NewGraph(ctx, "?rw")
		verif.Assume(err == nil)
		g2.AddTriples(ctx, triples(all[:1]))
		m := verif.Choice("method", 12)
		var res []*spec
		var ex, foreign bool
		var rerr, werr error
		write := func() { werr = g2.AddTriples(ctx, triples(all[1:])) }
		if sc == 7 {
			write = func() { werr = g2.RemoveTriples(ctx, triples(all[:1])) }
		}
		run(write, func() { res, ex, rerr, foreign = c19ReadAll(g2, m, stable, storage.DefaultLookup, all) })
		verif.Reach("done")
		verif.Assert(rerr == nil && werr == nil && !foreign, "C07/read-against-writer/succeeds")
		n1, n2, n0 := 0, 0, 0
		for _, x := range res {
			switch x {
			case stable:
				n0++
			case b1:
				n1++
			case b2:
				n2++
			}
		}
		verif.Assert(n0 <= 1 && n1 <= 1 && n2 <= 1, "C07/read-against-writer/no-duplicates")
		if sc == 6 {
			// the lookups that fix nothing the batch elements differ in see the batch all-or-nothing
			if m == 0 || m == 2 || m == 5 || m == 6 || m == 8 || m == 10 {
				verif.Assert(n1 == n2, "C07/batch-add-is-atomic-for-lookups")
			}
			if m == 11 {
				verif.Assert(ex, "C07/lookup-sees-earlier-writes")
			} else {
				verif.Assert(n0 == 1, "C07/lookup-sees-earlier-writes")
			}
		}
	case 8: // every read method: the channel is closed also on the error return, and the options value is never written
		mk := func(s, p, o byte, pk, pa int) *spec {
			sp := &spec{sb: s, pb: p, ob: o, pk: pk, pa: pa}
			sp.t = sp.build()
			return sp
		}
		all := []*spec{mk('a', 'p', 'x', 1, 0), mk('a', 'p', 'y', 1, 3), mk('b', 'q', 'x', 0, 0)}
		g2, err := st.NewGraph(ctx, "?ro")
		verif.Assume(err == nil)
		g2.AddTriples(ctx, triples(all))
		m := verif.Choice("method", 11)
		q := all[verif.Choice("arg", 3)]
		lo := &storage.LookupOptions{}
		bad := verif.Choice("options", 3)
		switch bad {
		case 1: // rejected by every lookup: LatestAnchor together with FilterOptions
			lo.LatestAnchor = true
			lo.FilterOptions = &filter.StorageOptions{Operation: filter.IsTemporal, Field: filter.PredicateField}
		case 2:
			lo.MaxElements = 1
		}
		fo := lo.FilterOptions
		// c19ReadAll ranges over the result channel: a channel that is not closed is a deadlock
		_, _, rerr, _ := c19ReadAll(g2, m, q, lo, all)
		verif.Reach("done")
		verif.Assert((rerr != nil) == (bad == 1), "C07/lookup-error-iff-options-rejected")
		verif.Assert(lo.LowerAnchor == nil && lo.UpperAnchor == nil && lo.Offset == 0 && lo.FilterOptions == fo &&
			lo.LatestAnchor == (bad == 1) && lo.MaxElements == map[int]int{0: 0, 1: 0, 2: 1}[bad], "C07/options-not-modified")
	default: // two lookups sharing default options: closes once, no interference
		var a, b []*triple.Triple
		run(func() { a, _ = list(storage.DefaultLookup) }, func() { b, _ = list(storage.DefaultLookup) })
		verif.Reach("done")
		verif.Assert(len(a) == 1 && len(b) == 1, "C07/concurrent-lookups-complete")
	}
}

// C07 (large batches): one AddTriples call with BATCH triples (more than any
// chunk size an implementation might index between two lock acquisitions)
// against a reader that tests the first and then the last triple of the batch:
// whoever sees the first sees the last.  The data is concrete; the
// interleaving of the writer and the reader is what the engine explores.
// Natively the reader spins until it sees the first triple and the whole
// experiment is repeated on fresh graphs.
func HarnessC07BigBatch() {
	n := verif.Param("BATCH", 1100)
	batch := make([]*triple.Triple, n)
	for i := range batch {
		sp := &spec{sb: 'a', pb: 'p', ob: 'x'}
		s, err := node.NewNodeFromStrings("/t", "n"+strconv.Itoa(i))
		verif.Assume(err == nil)
		t, err := triple.New(s, sp.build().Predicate(), sp.build().Object())
		verif.Assume(err == nil)
		batch[i] = t
	}
	first, last := batch[0], batch[n-1]
	rounds := 1
	if !verif.Symbolic() {
		rounds = 200
	}
	torn := false
	for r := 0; r < rounds && !torn; r++ {
		st := memory.NewStore()
		g, err := st.NewGraph(ctx, "?g")
		verif.Assume(err == nil)
		var wg sync.WaitGroup
		var e1, e2 bool
		wg.Add(2)
		go func() {
			defer wg.Done()
			g.AddTriples(ctx, batch)
		}()
		go func() {
			defer wg.Done()
			if verif.Symbolic() {
				e1, _ = g.Exist(ctx, first)
			} else {
				for i := 0; i < 10000000 && !e1; i++ {
					e1, _ = g.Exist(ctx, first)
				}
			}
			e2, _ = g.Exist(ctx, last)
		}()
		wg.Wait()
		torn = e1 && !e2
	}
	verif.Reach("done")
	verif.Assert(!torn, "C07/batch-add-is-atomic-for-lookups")
}
