// Package zzstore holds the gosym harnesses for the storage layer (memory
// driver, memoization wrapper, graph text I/O).
package zzstore

import (
	"context"
	"time"

	verif "github.com/google/badwolf/internal/zzverif"
	"github.com/google/badwolf/storage"
	"github.com/google/badwolf/triple"
	"github.com/google/badwolf/triple/literal"
	"github.com/google/badwolf/triple/node"
	"github.com/google/badwolf/triple/predicate"
)

var ctx = context.Background()

func noPanic(obligation string, f func()) (ok bool) {
	defer func() {
		if r := recover(); r != nil {
			verif.Fail(obligation)
			ok = false
		}
	}()
	f()
	return true
}

// anchorPool: an instant, one a nanosecond later, the first again spelled in
// another zone, and a much later instant.
var anchorPool = []time.Time{
	time.Date(2020, 1, 1, 12, 0, 0, 0, time.UTC),
	time.Date(2020, 1, 1, 12, 0, 0, 1, time.UTC), // one nanosecond later
	time.Date(2020, 1, 1, 14, 0, 0, 0, time.FixedZone("plus2", 7200)), // = anchorPool[0] in another zone
	time.Date(2021, 6, 30, 23, 59, 59, 0, time.UTC),
}

// sameInstant[i][j]: anchorPool[i] and anchorPool[j] denote the same instant.
func sameInstant(i, j int) bool { return anchorPool[i].Equal(anchorPool[j]) }

// spec is the value-level description of a symbolic triple drawn from the small
// universe: subject /t<sb>, predicate "pb" (immutable, or temporal anchored at
// anchorPool[pa]), object either node /t<ob> or text literal "ob".
// sb, pb, ob are symbolic bytes restricted to the universe alphabet {a, b}.
type spec struct {
	sb, pb, ob byte
	pk, pa     int // predicate kind (0 immutable, 1 temporal) and anchor index
	ok         int // object kind: 0 node, 1 text literal, 2 immutable predicate (only with OBJPRED=1), 3 temporal predicate anchored at anchorPool[oa]
	oa         int
	st, ot     byte // type letter of the subject / of a node object: /<st><sb>; zero stands for 't'
	t          *triple.Triple
}

func tyOf(b byte) byte {
	if b == 0 {
		return 't'
	}
	return b
}

func alpha(c byte) bool { return verif.Or(c == 'a', c == 'b') }

// symTriple draws a triple from the universe; kinds are skeleton choices, the
// component bytes are solver variables.
func symTriple(name string, temporal bool) *spec {
	sp := &spec{sb: verif.Byte(name + ".s"), pb: verif.Byte(name + ".p"), ob: verif.Byte(name + ".o")}
	verif.Assume(verif.And(alpha(sp.sb), verif.And(alpha(sp.pb), alpha(sp.ob))))
	if temporal {
		sp.pk = verif.Choice(name+".pk", 2)
		if sp.pk == 1 {
			sp.pa = verif.Choice(name+".pa", verif.Param("ANCHORS", 2))
		}
	}
	sp.ok = verif.Choice(name+".ok", 2+verif.Param("OBJPRED", 0))
	sp.t = sp.build()
	return sp
}

// symTripleKinds draws a triple with fixed kinds and symbolic component bytes.
func symTripleKinds(name string, pk, pa, ok int) *spec {
	sp := &spec{sb: verif.Byte(name + ".s"), pb: verif.Byte(name + ".p"), ob: verif.Byte(name + ".o"), pk: pk, pa: pa, ok: ok}
	verif.Assume(verif.And(alpha(sp.sb), verif.And(alpha(sp.pb), alpha(sp.ob))))
	sp.t = sp.build()
	return sp
}

func mkNode(id byte) *node.Node { return mkNodeT('t', id) }

func mkNodeT(ty, id byte) *node.Node {
	n, err := node.NewNodeFromStrings("/"+string([]byte{ty}), string([]byte{id}))
	if err != nil {
		panic(err)
	}
	return n
}

func mkPredicate(id byte, kind, anchor int) *predicate.Predicate {
	var p *predicate.Predicate
	var err error
	if kind == 0 {
		p, err = predicate.NewImmutable(string([]byte{id}))
	} else {
		p, err = predicate.NewTemporal(string([]byte{id}), anchorPool[anchor])
	}
	if err != nil {
		panic(err)
	}
	return p
}

func mkObject(kind int, b byte, oa int) *triple.Object {
	if kind == 3 {
		return triple.NewPredicateObject(mkPredicate(b, 1, oa))
	}
	if kind == 0 {
		return triple.NewNodeObject(mkNode(b))
	}
	if kind == 2 {
		return triple.NewPredicateObject(mkPredicate(b, 0, 0))
	}
	l, err := literal.DefaultBuilder().Build(literal.Text, string([]byte{b}))
	if err != nil {
		panic(err)
	}
	return triple.NewLiteralObject(l)
}

func (sp *spec) build() *triple.Triple {
	o := mkObject(sp.ok, sp.ob, sp.oa)
	if sp.ok == 0 {
		o = triple.NewNodeObject(mkNodeT(tyOf(sp.ot), sp.ob))
	}
	t, err := triple.New(mkNodeT(tyOf(sp.st), sp.sb), mkPredicate(sp.pb, sp.pk, sp.pa), o)
	if err != nil {
		panic(err)
	}
	return t
}

// eq: the two triples are the same triple (component-wise: kind and value;
// anchors as instants) — one solver term, no fork.
func (sp *spec) eq(o *spec) bool {
	if sp.pk != o.pk || sp.ok != o.ok {
		return false
	}
	if sp.pk == 1 && !sameInstant(sp.pa, o.pa) {
		return false
	}
	if sp.ok == 3 && !sameInstant(sp.oa, o.oa) {
		return false
	}
	r := verif.And(sp.sb == o.sb, verif.And(sp.pb == o.pb, sp.ob == o.ob))
	if sp.st != 0 || o.st != 0 || sp.ot != 0 || o.ot != 0 {
		r = verif.And(r, tyOf(sp.st) == tyOf(o.st))
		if sp.ok == 0 {
			r = verif.And(r, tyOf(sp.ot) == tyOf(o.ot))
		}
	}
	return r
}

func anyEq(x *spec, batch []*spec) bool {
	r := false
	for _, t := range batch {
		r = verif.Or(r, x.eq(t))
	}
	return r
}

func triples(batch []*spec) []*triple.Triple {
	out := make([]*triple.Triple, len(batch))
	for i, s := range batch {
		out[i] = s.t
	}
	return out
}

// listing returns the full content of g.
func listing(g storage.Graph) ([]*triple.Triple, error) {
	ch := make(chan *triple.Triple, 64)
	err := g.Triples(ctx, storage.DefaultLookup, ch)
	var out []*triple.Triple
	for t := range ch {
		out = append(out, t)
	}
	return out, err
}

func b2i(b bool) int {
	// fork-free bool→int is not expressible in Go; callers use countTrue
	if b {
		return 1
	}
	return 0
}
