package zzstore

import (
	verif "github.com/google/badwolf/internal/zzverif"
	"github.com/google/badwolf/storage"
	"github.com/google/badwolf/storage/memory"
	"github.com/google/badwolf/triple"
	"github.com/google/badwolf/triple/node"
	"github.com/google/badwolf/triple/predicate"
)

var methodNames = []string{"Objects", "Subjects", "PredicatesForSubject", "PredicatesForObject", "PredicatesForSubjectAndObject",
	"TriplesForSubject", "TriplesForPredicate", "TriplesForObject", "TriplesForSubjectAndPredicate", "TriplesForPredicateAndObject"}

// fixes[m] = which of S, P, O the lookup method m fixes.
var fixes = [][3]bool{{true, true, false}, {false, true, true}, {true, false, false}, {false, false, true}, {true, false, true},
	{true, false, false}, {false, true, false}, {false, false, true}, {true, true, false}, {false, true, true}}

// lookup runs method m of g with the components of q and returns, for every
// delivered element, the stored triple (spec) it was derived from — identified
// by pointer: the driver hands out the components of the triples it stores.
func lookup(g storage.Graph, m int, q *spec, lo *storage.LookupOptions, all []*spec) (res []*spec, err error, foreign bool) {
	s, p, o := q.t.Subject(), q.t.Predicate(), q.t.Object()
	byTriple := func(t *triple.Triple) *spec {
		for _, x := range all {
			if x.t == t {
				return x
			}
		}
		return nil
	}
	add := func(x *spec) {
		if x == nil {
			foreign = true
			return
		}
		res = append(res, x)
	}
	switch m {
	case 0:
		ch := make(chan *triple.Object, 64)
		err = g.Objects(ctx, s, p, lo, ch)
		for v := range ch {
			var f *spec
			for _, x := range all {
				if x.t.Object() == v {
					f = x
				}
			}
			add(f)
		}
	case 1:
		ch := make(chan *node.Node, 64)
		err = g.Subjects(ctx, p, o, lo, ch)
		for v := range ch {
			var f *spec
			for _, x := range all {
				if x.t.Subject() == v {
					f = x
				}
			}
			add(f)
		}
	case 2, 3, 4:
		ch := make(chan *predicate.Predicate, 64)
		switch m {
		case 2:
			err = g.PredicatesForSubject(ctx, s, lo, ch)
		case 3:
			err = g.PredicatesForObject(ctx, o, lo, ch)
		default:
			err = g.PredicatesForSubjectAndObject(ctx, s, o, lo, ch)
		}
		for v := range ch {
			var f *spec
			for _, x := range all {
				if x.t.Predicate() == v {
					f = x
				}
			}
			add(f)
		}
	default:
		ch := make(chan *triple.Triple, 64)
		switch m {
		case 5:
			err = g.TriplesForSubject(ctx, s, lo, ch)
		case 6:
			err = g.TriplesForPredicate(ctx, p, lo, ch)
		case 7:
			err = g.TriplesForObject(ctx, o, lo, ch)
		case 8:
			err = g.TriplesForSubjectAndPredicate(ctx, s, p, lo, ch)
		default:
			err = g.TriplesForPredicateAndObject(ctx, p, o, lo, ch)
		}
		for v := range ch {
			add(byTriple(v))
		}
	}
	return
}

// matches: the fixed components of method m, taken from q, equal those of x
// (predicate: identifier, kind and, when temporal, instant).
func matches(m int, x, q *spec) bool {
	r := true
	if fixes[m][0] {
		r = verif.And(r, x.sb == q.sb)
		if x.st != 0 || q.st != 0 {
			r = verif.And(r, tyOf(x.st) == tyOf(q.st))
		}
	}
	if fixes[m][1] {
		if x.pk != q.pk || (x.pk == 1 && !sameInstant(x.pa, q.pa)) {
			return false
		}
		r = verif.And(r, x.pb == q.pb)
	}
	if fixes[m][2] {
		if x.ok != q.ok {
			return false
		}
		r = verif.And(r, x.ob == q.ob)
		if x.ok == 0 && (x.ot != 0 || q.ot != 0) {
			r = verif.And(r, tyOf(x.ot) == tyOf(q.ot))
		}
	}
	return r
}

// C02: every indexed lookup returns exactly what a scan would: pre-state
// Add(b1); Remove(b2) built by the real code, arguments symbolic (stored or
// not: the solver decides), default options.
func HarnessC02Lookup() {
	m := verif.Param("METHOD", -1)
	if m < 0 {
		m = verif.Choice("method", 10)
	}
	temporal := verif.Param("TEMPORAL", 1) == 1
	g, err := memory.NewStore().NewGraph(ctx, "?g")
	verif.Assume(err == nil)
	mk := func(name string, max int) []*spec {
		n := verif.Choice(name+".n", max+1)
		var b []*spec
		for i := 0; i < n; i++ {
			b = append(b, symTriple(name, temporal))
		}
		return b
	}
	b1, b2 := mk("b1", verif.Param("PRE", 2)), mk("b2", verif.Param("REM", 1))
	q := symTriple("q", temporal)
	var all []*spec
	all = append(append(all, b1...), b2...)
	var res []*spec
	var lerr error
	var foreign bool
	ok := noPanic("C02/no-panic", func() {
		g.AddTriples(ctx, triples(b1))
		g.RemoveTriples(ctx, triples(b2))
		res, lerr, foreign = lookup(g, m, q, storage.DefaultLookup, all)
	})
	if !ok {
		return
	}
	verif.Reach("looked-up")
	verif.Assert(lerr == nil, "C02/lookup-succeeds")
	verif.Assert(!foreign, "C02/result-derived-from-stored-triple")
	present := func(x *spec) bool { return verif.And(anyEq(x, b1), !anyEq(x, b2)) }
	var seen []*spec
	for _, x := range res {
		verif.Assert(present(x), "C02/result-is-stored")
		if fixes[m][1] && x.pk != q.pk {
			verif.Class("predicate-kind-not-compared")
		}
		verif.Assert(matches(m, x, q), "C02/result-matches-fixed-components")
		verif.Class("")
		verif.Assert(!anyEq(x, seen), "C02/one-result-per-triple")
		seen = append(seen, x)
	}
	for _, x := range all {
		verif.Assert(verif.Implies(verif.And(present(x), matches(m, x, q)), anyEq(x, seen)), "C02/every-match-returned")
	}
}

// C02 (siblings): triples that share components pairwise (subject+predicate,
// predicate+object, subject+object, a node that is subject of one and object of
// another) are added, one or two are removed - or a triple that was never
// stored -, and every lookup method is compared with the scan: an index bucket
// must lose exactly the removed triple.
func HarnessC02Siblings() {
	m := verif.Param("METHOD", -1)
	if m < 0 {
		m = verif.Choice("method", 10)
	}
	g, err := memory.NewStore().NewGraph(ctx, "?g")
	verif.Assume(err == nil)
	s, p, o := verif.Byte("s"), verif.Byte("p"), verif.Byte("o")
	s2, p2, o2 := verif.Byte("s2"), verif.Byte("p2"), verif.Byte("o2")
	verif.Assume(verif.And(verif.And(alpha(s), alpha(p)), verif.And(alpha(o), verif.And(alpha(s2), verif.And(alpha(p2), alpha(o2))))))
	mk := func(sb, pb, ob byte) *spec {
		sp := &spec{sb: sb, pb: pb, ob: ob}
		sp.t = sp.build()
		return sp
	}
	t := []*spec{mk(s, p, o), mk(s2, p, o), mk(s, p2, o), mk(s, p, o2), mk(o, p, s2), mk(s2, p2, o2)}
	added := t[:5]
	var removed []*spec
	switch verif.Choice("remove", 6) {
	case 0:
		removed = []*spec{t[0]}
	case 1:
		removed = []*spec{t[1]}
	case 2:
		removed = []*spec{t[4]}
	case 3:
		removed = []*spec{t[5]} // possibly never stored
	case 4:
		removed = []*spec{t[0], t[0]}
	default:
		removed = []*spec{t[3], t[2]}
	}
	q := t[verif.Choice("query", 6)]
	var res []*spec
	var lerr error
	var foreign bool
	ok := noPanic("C02/siblings/no-panic", func() {
		g.AddTriples(ctx, triples(added))
		g.RemoveTriples(ctx, triples(removed))
		res, lerr, foreign = lookup(g, m, q, storage.DefaultLookup, t)
	})
	if !ok {
		return
	}
	verif.Reach("looked-up")
	verif.Assert(lerr == nil, "C02/siblings/lookup-succeeds")
	verif.Assert(!foreign, "C02/siblings/result-derived-from-stored-triple")
	present := func(x *spec) bool { return verif.And(anyEq(x, added), !anyEq(x, removed)) }
	var seen []*spec
	for _, x := range res {
		verif.Assert(present(x), "C02/siblings/result-is-stored")
		verif.Assert(matches(m, x, q), "C02/siblings/result-matches-fixed-components")
		verif.Assert(!anyEq(x, seen), "C02/siblings/one-result-per-triple")
		seen = append(seen, x)
	}
	for _, x := range t {
		verif.Assert(verif.Implies(verif.And(present(x), matches(m, x, q)), anyEq(x, seen)), "C02/siblings/every-match-returned")
	}
}

// C02 (node types): nodes are identified by type and id together.  Three
// triples whose subjects and node objects draw their type from {/t, /u} and
// their id from {a, b} (all solver variables) are added in one batch - so
// consecutive triples may share an id and differ in type, or the reverse -,
// one may be removed, and every lookup method with a symbolic argument is
// compared with the scan.
func HarnessC02Types() {
	m := verif.Param("METHOD", -1)
	if m < 0 {
		m = verif.Choice("method", 10)
	}
	g, err := memory.NewStore().NewGraph(ctx, "?g")
	verif.Assume(err == nil)
	ty := func(b byte) bool { return verif.Or(b == 't', b == 'u') }
	mk := func(name string) *spec {
		sp := &spec{sb: verif.Byte(name + ".s"), pb: 'p', ob: verif.Byte(name + ".o"), st: verif.Byte(name + ".st"), ot: verif.Byte(name + ".ot")}
		verif.Assume(verif.And(verif.And(alpha(sp.sb), alpha(sp.ob)), verif.And(ty(sp.st), ty(sp.ot))))
		sp.t = sp.build()
		return sp
	}
	n := 2 + verif.Choice("n", 2)
	var all []*spec
	for i := 0; i < n; i++ {
		all = append(all, mk("t"))
	}
	verif.Assume(g.AddTriples(ctx, triples(all)) == nil)
	present := make([]bool, n)
	for i := range present {
		present[i] = true
	}
	if verif.Choice("remove", 2) == 1 {
		verif.Assume(g.RemoveTriples(ctx, triples(all[:1])) == nil)
		for i, x := range all {
			present[i] = !x.eq(all[0])
		}
	}
	q := mk("q")
	res, err, foreign := lookup(g, m, q, storage.DefaultLookup, all)
	verif.Reach("looked-up")
	verif.Assert(err == nil, "C02/types/lookup-succeeds")
	verif.Assert(!foreign, "C02/types/result-derived-from-stored-triple")
	for _, x := range res {
		hit := false
		for i, y := range all {
			hit = verif.Or(hit, verif.And(present[i], verif.And(y.eq(x), matches(m, y, q))))
		}
		verif.Assert(hit, "C02/types/only-matches-returned")
	}
	for i, x := range all {
		verif.Assert(verif.Implies(verif.And(present[i], matches(m, x, q)), anyEq(x, res)), "C02/types/every-match-returned")
	}
}
