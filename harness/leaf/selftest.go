package zzleaf

import (
	"bufio"
	"bytes"
	"fmt"
	"io"

	"github.com/pborman/uuid"

	verif "github.com/google/badwolf/internal/zzverif"
)

// Regression tests of the symbolic executor itself (`gosym selftest`): Go
// semantics the engine once got wrong.  Every assertion holds natively.

type selfA struct {
	buf  []byte
	r, w int
	err  error
	last int
}

// go/ssa takes &b.buf and &b.last before it stores the zero struct into *b
func (b *selfA) reset(buf []byte) { *b = selfA{buf: buf, last: -1} }

func HarnessEngineSelfTest() {
	a := new(selfA)
	a.reset(make([]byte, 16))
	verif.Assert(len(a.buf) == 16 && a.last == -1 && a.r == 0 && a.err == nil, "selftest/struct-store-keeps-field-pointers")
	arr := [3]selfA{}
	p := &arr[1].last
	arr = [3]selfA{{last: 1}, {last: 2}, {last: 3}}
	verif.Assert(*p == 2, "selftest/array-store-keeps-element-pointers")

	br := bufio.NewReader(bytes.NewReader([]byte("ab\ncd")))
	l1, e1 := br.ReadString('\n')
	verif.Assert(l1 == "ab\n" && e1 == nil, "selftest/bufio-first-line")
	l2, e2 := br.ReadString('\n')
	verif.Assert(l2 == "cd" && e2 == io.EOF, "selftest/bufio-last-line")
	l3, e3 := br.ReadString('\n')
	verif.Assert(l3 == "" && e3 == io.EOF, "selftest/bufio-eof")

	// uuid.Parse depends on a table filled by the initialiser of github.com/google/uuid
	u := uuid.Parse("6ba7b810-9dad-11d1-80b4-00c04fd430c8")
	verif.Assert(u != nil && u.String() == "6ba7b810-9dad-11d1-80b4-00c04fd430c8", "selftest/uuid-parse")
	verif.Assert(uuid.Parse("6ba7b810-9dad-11d1-80b4-00c04fd430cg") == nil, "selftest/uuid-parse-rejects")
	verif.Assert(fmt.Sprintf("%v|%+v", map[string]int{"b": 2, "a": 1}, map[int]string{2: "x", -1: "y"}) == "map[a:1 b:2]|map[-1:y 2:x]", "selftest/fmt-map-sorted")
	verif.Reach("selftest-end")
}
