package zzleaf

import (
	verif "github.com/google/badwolf/internal/zzverif"
	"github.com/google/badwolf/bql/lexer"
)

// lexAll drains the token channel (the lexer goroutine and the channel are part
// of what is executed symbolically); a channel that is never closed deadlocks.
func lexAll(in string, capacity int) []lexer.Token {
	var toks []lexer.Token
	for t := range lexer.New(in, capacity) {
		toks = append(toks, t)
	}
	return toks
}

func matchAt(in, text string, k int) bool {
	ok := true
	for i := 0; i < len(text); i++ {
		ok = verif.And(ok, in[k+i] == text[i])
	}
	return ok
}

// indexFrom returns the first k >= pos with in[k:k+len(text)] == text, or -1.
func indexFrom(in, text string, pos int) int {
	for k := pos; k+len(text) <= len(in); k++ {
		if matchAt(in, text, k) {
			return k
		}
	}
	return -1
}

func symInput(name string, n int) string {
	in := verif.String(name, n)
	if verif.Param("ASCII", 1) == 1 {
		for i := 0; i < len(in); i++ {
			verif.Assume(in[i] < 0x80)
		}
	}
	return in
}

// C16 (a): structure — every input of N bytes: the lexer terminates, closes its
// channel, token texts are non-overlapping substrings in order, and there is
// exactly one EOF-or-error token, the last one.
func HarnessC16Structure() {
	n := verif.Choice("len", verif.Param("N", 4)+1)
	in := symInput("in", n)
	caps := []int{0, 1, n + 1}
	capacity := caps[verif.Choice("cap", 3)]
	var toks []lexer.Token
	if !noPanic("C16/no-panic", func() { toks = lexAll(in, capacity) }) {
		return
	}
	verif.Reach("terminated")
	checkStructure(in, toks)
}

// checkStructure: token texts are non-overlapping substrings of the input in
// left-to-right order and exactly one EOF-or-error token comes last.
func checkStructure(in string, toks []lexer.Token) {
	verif.Assert(len(toks) > 0, "C16/has-terminal")
	pos := 0
	for i, t := range toks {
		at := indexFrom(in, t.Text, pos)
		verif.Assert(at >= 0, "C16/substring-in-order")
		if at < 0 {
			return
		}
		pos = at + len(t.Text)
		last := t.Type == lexer.ItemEOF || t.Type == lexer.ItemError
		verif.Assert(last == (i == len(toks)-1), "C16/one-terminal-last")
	}
}

// lexTemplates: concrete text around a hole, so that a few symbolic bytes sit
// deep inside every state of the lexer (anchors, bounds, node ids, literal
// values and types, bindings, time and filter-function contexts).
var lexTemplates = [][2]string{
	{"\"p\"@[", "]"},
	{"\"p\"@[", ""},
	{"\"p\"@[2006-01-02T15:04:05Z", "]"},
	{"\"p\"@[,", "]"},
	{"\"p", "\"@[]"},
	{"\"p\"", "[]"},
	{"/t<", ">"},
	{"/t<a", ""},
	{"/", "<a>"},
	{"\"", "\"^^type:text"},
	{"\"1\"^^type:", ""},
	{"\"1\"^^", "int64"},
	{"\"1\"", "type:int64"},
	{"?", " "},
	{"_:", " "},
	{"before ", " "},
	{"before 2006-01-02T15:04:05", ""},
	{"between ", ";"},
	{"filter ", "(?p)"},
	{"filter latest", "?p)"},
	{"select ?a", "?b"},
	{"<", ">"},
	{"having ?a ", " 2006-01-02T15:04:05Z"},
}

// C16 (a'): structure on templates with a symbolic hole.
func HarnessC16Template() {
	tp := lexTemplates[verif.Choice("template", len(lexTemplates))]
	n := verif.Choice("len", verif.Param("N", 2)+1)
	in := tp[0] + symInput("hole", n) + tp[1]
	var toks []lexer.Token
	if !noPanic("C16/no-panic", func() { toks = lexAll(in, 2) }) {
		return
	}
	verif.Reach("terminated")
	checkStructure(in, toks)
}

var keywords = []string{"select", "insert", "delete", "create", "construct", "deconstruct", "drop", "graph", "data", "into", "from",
	"where", "optional", "filter", "as", "before", "after", "between", "count", "distinct", "sum", "group", "having", "by", "order",
	"asc", "desc", "limit", "not", "and", "or", "id", "type", "at", "in", "show", "graphs"}

// withCase returns w with every letter's case chosen by a symbolic bit
// (fork-free: the byte is w[i] - 32·bit).
func withCase(name, w string) string {
	m := verif.Bytes(name, len(w))
	b := make([]byte, len(w))
	for i := 0; i < len(w); i++ {
		c := w[i]
		if c >= 'a' && c <= 'z' {
			c -= 32 * (m[i] & 1)
		}
		b[i] = c
	}
	return string(b)
}

// C16 (b): keywords are recognised regardless of letter case.
func HarnessC16KeywordCase() {
	w := keywords[verif.Choice("kw", len(keywords))]
	ref := lexAll(w, 4)
	verif.Assume(len(ref) == 2)
	got := lexAll(withCase("mask", w), 4)
	verif.Reach("lexed")
	verif.Assert(len(got) == 2, "C16/keyword-case/one-token")
	if len(got) == 2 {
		verif.Assert(got[0].Type == ref[0].Type, "C16/keyword-case/same-type")
		verif.Assert(got[1].Type == lexer.ItemEOF, "C16/keyword-case/eof")
	}
}

var literalTypes = []string{"bool", "int64", "float64", "text", "blob"}
var literalBodies = []string{"true", "1", "1.5", "a", "[1 2]"}

// C16 (b'): literal type names are recognised regardless of letter case.
func HarnessC16LiteralTypeCase() {
	k := verif.Choice("type", len(literalTypes))
	in := "\"" + literalBodies[k] + "\"^^type:" + withCase("mask", literalTypes[k])
	got := lexAll(in, 4)
	verif.Reach("lexed")
	verif.Assert(len(got) == 2, "C16/literal-type-case/one-token")
	if len(got) == 2 {
		verif.Assert(got[0].Type == lexer.ItemLiteral, "C16/literal-type-case/is-literal")
		verif.Assert(got[0].Text == in, "C16/literal-type-case/whole-text")
	}
}

func noSpace(s string) bool {
	ok := true
	for i := 0; i < len(s); i++ {
		ok = verif.And(ok, !spaceByte(s[i]))
	}
	return ok
}

var separators = []string{" ", "  ", "\t", "\n", " \n\t "}

// C16 (c): the amount of whitespace between two words changes neither the
// kinds nor the texts of the tokens.
func HarnessC16Whitespace() {
	L := verif.Param("W", 2)
	w1 := symInput("w1", 1+verif.Choice("l1", L))
	w2 := symInput("w2", 1+verif.Choice("l2", L))
	verif.Assume(verif.And(noSpace(w1), noSpace(w2)))
	// "between two tokens": each word on its own is exactly one non-error token
	for _, w := range []string{w1, w2} {
		t := lexAll(w, 8)
		verif.Assume(len(t) == 2 && t[0].Type != lexer.ItemError && t[1].Type == lexer.ItemEOF)
		verif.Assume(t[0].Text == w)
	}
	s1 := separators[verif.Choice("sep1", len(separators))]
	s2 := separators[verif.Choice("sep2", len(separators))]
	a := lexAll(w1+s1+w2, 8)
	b := lexAll(w1+s2+w2, 8)
	verif.Reach("lexed")
	verif.Assert(len(a) == len(b), "C16/whitespace/same-token-count")
	if len(a) != len(b) {
		return
	}
	for i := range a {
		verif.Assert(a[i].Type == b[i].Type, "C16/whitespace/same-kinds")
		if a[i].Type != lexer.ItemError && a[i].Type == b[i].Type {
			verif.Assert(a[i].Text == b[i].Text, "C16/whitespace/same-texts")
		}
	}
}

func noByte(s string, c byte) bool {
	ok := true
	for i := 0; i < len(s); i++ {
		ok = verif.And(ok, s[i] != c)
	}
	return ok
}

func wordByte(c byte) bool {
	return verif.Or(verif.Or(verif.And(c >= 'a', c <= 'z'), verif.And(c >= 'A', c <= 'Z')), verif.Or(verif.And(c >= '0', c <= '9'), c == '_'))
}

func letterByte(c byte) bool {
	return verif.Or(verif.And(c >= 'a', c <= 'z'), verif.And(c >= 'A', c <= 'Z'))
}

// C16 (d): the printed form of a node, predicate, bound, binding, blank node or
// literal without embedded double quotes is one token carrying exactly that text.
func HarnessC16PrintedForms() {
	L := verif.Param("P", 2)
	var txt string
	var want lexer.TokenType
	switch verif.Choice("kind", 8) {
	case 0: // node, documented domain
		n := symNode("n", 1+verif.Choice("tl", L), 1+verif.Choice("il", L))
		if ty := n.Type().String(); ty[len(ty)-1] == '\\' {
			verif.Class("node-type-ends-with-backslash")
		}
		txt, want = n.String(), lexer.ItemNode
	case 1: // immutable predicate, id without '"'
		id := symInput("id", 1+verif.Choice("l", L))
		verif.Assume(noByte(id, '"'))
		if id[len(id)-1] == '\\' {
			verif.Class("predicate-id-ends-with-backslash")
		} else if len(id) >= 2 && id[0] == '@' && id[1] == '[' {
			verif.Class("predicate-id-starts-with-at-bracket")
		}
		p := symPredicateFromID(id, 0)
		txt, want = p.String(), lexer.ItemPredicate
	case 2: // temporal predicate, concrete anchors
		id := symInput("id", 1+verif.Choice("l", L))
		verif.Assume(noByte(id, '"'))
		if id[len(id)-1] == '\\' {
			verif.Class("predicate-id-ends-with-backslash")
		} else if len(id) >= 2 && id[0] == '@' && id[1] == '[' {
			verif.Class("predicate-id-starts-with-at-bracket")
		}
		p := symPredicateFromID(id, 2)
		txt, want = p.String(), lexer.ItemPredicate
	case 3: // predicate bound
		id := symInput("id", 1+verif.Choice("l", L))
		verif.Assume(verif.And(noByte(id, '"'), noByte(id, '\\')))
		if len(id) >= 2 && id[0] == '@' && id[1] == '[' {
			verif.Class("predicate-id-starts-with-at-bracket")
		}
		lo := anchorPool[verif.Choice("lo", len(anchorPool))].Format("2006-01-02T15:04:05.999999999Z07:00")
		hi := anchorPool[verif.Choice("hi", len(anchorPool))].Format("2006-01-02T15:04:05.999999999Z07:00")
		txt, want = "\""+id+"\"@["+lo+","+hi+"]", lexer.ItemPredicateBound
	case 4: // binding
		w := symInput("w", 1+verif.Choice("l", L))
		ok := true
		for i := 0; i < len(w); i++ {
			ok = verif.And(ok, wordByte(w[i]))
		}
		verif.Assume(ok)
		txt, want = "?"+w, lexer.ItemBinding
	case 5: // blank node
		w := symInput("w", 1+verif.Choice("l", L))
		ok := letterByte(w[0])
		for i := 1; i < len(w); i++ {
			ok = verif.And(ok, wordByte(w[i]))
		}
		verif.Assume(ok)
		txt, want = "_:"+w, lexer.ItemBlankNode
	case 6: // text literal without '"'
		s := symInput("s", verif.Choice("l", L+1))
		verif.Assume(noByte(s, '"'))
		if len(s) > 0 && s[len(s)-1] == '\\' {
			verif.Class("text-ends-with-backslash")
		}
		l := symLiteralText(s)
		txt, want = l.String(), lexer.ItemLiteral
	default: // bool / int64 literal
		var l interface{ String() string }
		if verif.Choice("int", 2) == 1 {
			v := verif.Int64("v")
			verif.Assume(verif.And(v > -100, v < 100))
			l = symLiteralInt(v)
		} else {
			l = symLiteralBool(verif.Bool("b"))
		}
		txt, want = l.String(), lexer.ItemLiteral
	}
	var toks []lexer.Token
	if !noPanic("C16/printed/no-panic", func() { toks = lexAll(txt, 4) }) {
		return
	}
	verif.Reach("lexed")
	verif.Assert(len(toks) == 2, "C16/printed/one-token")
	if len(toks) == 2 {
		verif.Assert(toks[0].Type == want, "C16/printed/token-kind")
		verif.Assert(toks[0].Text == txt, "C16/printed/exact-text")
		verif.Assert(toks[1].Type == lexer.ItemEOF, "C16/printed/eof")
	}
}
