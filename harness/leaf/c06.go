package zzleaf

import (
	"math"
	"time"

	verif "github.com/google/badwolf/internal/zzverif"
	"github.com/google/badwolf/triple"
	"github.com/google/badwolf/triple/literal"
	"github.com/google/badwolf/triple/node"
	"github.com/google/badwolf/triple/predicate"
	"github.com/pborman/uuid"
)

// symNode builds a node from symbolic bytes: type "/" + tl bytes, id il bytes,
// restricted (by one fork-free assumption) to the documented domain: no
// whitespace in type or id, no '<' '>' in the id, the type does not end in '/'.
func symNode(name string, tl, il int) *node.Node {
	t := node.Type("/" + verif.String(name+".t", tl))
	id := node.ID(verif.String(name+".i", il))
	verif.Assume(validNodeText(string(t), string(id)))
	return node.NewNode(&t, &id)
}

func spaceByte(c byte) bool {
	return verif.Or(verif.Or(c == ' ', c == '\t'), verif.Or(verif.Or(c == '\n', c == '\r'), verif.Or(c == '\v', c == '\f')))
}

func validNodeText(t, id string) bool {
	ok := len(t) > 1 && len(id) > 0
	for i := 0; i < len(t); i++ {
		// "types follow a simple file path syntax": '<' and '>' delimit the id
		ok = verif.And(ok, verif.And(!spaceByte(t[i]), verif.And(t[i] != '<', t[i] != '>')))
	}
	ok = verif.And(ok, t[len(t)-1] != '/')
	for i := 0; i < len(id); i++ {
		ok = verif.And(ok, verif.And(!spaceByte(id[i]), verif.And(id[i] != '<', id[i] != '>')))
	}
	return ok
}

func sameNode(a, b *node.Node) bool {
	return verif.And(a.Type().String() == b.Type().String(), a.ID().String() == b.ID().String())
}

// C06: two nodes have the same UUID exactly when type and id are equal.
func HarnessC06Node() {
	max := verif.Param("L", 2)
	a := symNode("a", 1+verif.Choice("atl", max), 1+verif.Choice("ail", max))
	b := symNode("b", 1+verif.Choice("btl", max), 1+verif.Choice("bil", max))
	same := sameNode(a, b)
	if !same && a.Type().String()+a.ID().String() == b.Type().String()+b.ID().String() {
		verif.Class("node-type-id-boundary")
	}
	var ua, ub uuid.UUID
	if !noPanic("C06/node/uuid-defined", func() { ua, ub = a.UUID(), b.UUID() }) {
		return
	}
	verif.Reach("uuids")
	verif.Assert(uuid.Equal(ua, ub) == same, "C06/node/uuid-iff-equal")
	// determinism: a second call gives the same bytes
	verif.Assert(uuid.Equal(a.UUID(), ua), "C06/node/uuid-deterministic")
}

// C06 (long values): nodes, predicates and text literals whose text is LEN
// concrete bytes followed by one symbolic byte (so the difference sits behind
// any fixed-size buffer an implementation might hash from): same UUID exactly
// when the last byte is the same.
func HarnessC06Long() {
	n := []int{62, 63, 64, 65, 127, 128, 255, 256, 1023}[verif.Choice("len", 9)]
	pad := make([]byte, n)
	for i := range pad {
		pad[i] = 'a' + byte(i%26)
	}
	x, y := verif.Byte("x"), verif.Byte("y")
	verif.Assume(verif.And(verif.And(x > ' ', x < 0x7f), verif.And(y > ' ', y < 0x7f)))
	verif.Assume(verif.And(verif.And(x != '<', x != '>'), verif.And(y != '<', y != '>')))
	ta, tb := string(pad)+string([]byte{x}), string(pad)+string([]byte{y})
	var ua, ub uuid.UUID
	ok := true
	switch verif.Choice("kind", 4) {
	case 0: // long id
		a, e1 := node.NewNodeFromStrings("/t", ta)
		b, e2 := node.NewNodeFromStrings("/t", tb)
		verif.Assume(e1 == nil && e2 == nil)
		ok = noPanic("C06/long/uuid-defined", func() { ua, ub = a.UUID(), b.UUID() })
	case 1: // long type
		a, e1 := node.NewNodeFromStrings("/"+ta, "i")
		b, e2 := node.NewNodeFromStrings("/"+tb, "i")
		verif.Assume(e1 == nil && e2 == nil)
		ok = noPanic("C06/long/uuid-defined", func() { ua, ub = a.UUID(), b.UUID() })
	case 2: // long predicate id
		a, e1 := predicate.NewImmutable(ta)
		b, e2 := predicate.NewImmutable(tb)
		verif.Assume(e1 == nil && e2 == nil)
		ok = noPanic("C06/long/uuid-defined", func() { ua, ub = a.UUID(), b.UUID() })
	default: // long text
		a, e1 := literal.DefaultBuilder().Build(literal.Text, ta)
		b, e2 := literal.DefaultBuilder().Build(literal.Text, tb)
		verif.Assume(e1 == nil && e2 == nil)
		ok = noPanic("C06/long/uuid-defined", func() { ua, ub = a.UUID(), b.UUID() })
	}
	if !ok {
		return
	}
	verif.Reach("uuids")
	verif.Assert(uuid.Equal(ua, ub) == (x == y), "C06/long/uuid-iff-equal")
}

var floatPool = []float64{0, math.Copysign(0, -1), 1.5, -1.5, math.Inf(1), math.Inf(-1), math.NaN(), 5e-324, math.MaxFloat64,
	0.1234561, 0.1234562, 1, math.Nextafter(1, 2), 1e15, 1e15 + 0.125} // neighbours: values that agree in their first decimals / differ in the last bit

// symLiteral builds a literal of the chosen kind with symbolic content.
// kinds: 0 bool, 1 int64, 2 float64 (concrete pool), 3 text, 4 blob.
func symLiteral(name string, kind, n int) *literal.Literal {
	b := literal.DefaultBuilder()
	var l *literal.Literal
	var err error
	switch kind {
	case 0:
		l, err = b.Build(literal.Bool, verif.Bool(name+".b"))
	case 1:
		l, err = b.Build(literal.Int64, verif.Int64(name+".n"))
	case 2:
		l, err = b.Build(literal.Float64, floatPool[verif.Choice(name+".f", len(floatPool))])
	case 3:
		l, err = b.Build(literal.Text, verif.String(name+".s", n))
	default:
		l, err = b.Build(literal.Blob, verif.Bytes(name+".s", n))
	}
	verif.Assume(err == nil)
	return l
}

func sameLiteral(a, b *literal.Literal) bool {
	if a.Type() != b.Type() {
		return false
	}
	switch a.Type() {
	case literal.Bool:
		x, _ := a.Bool()
		y, _ := b.Bool()
		return x == y
	case literal.Int64:
		x, _ := a.Int64()
		y, _ := b.Int64()
		return x == y
	case literal.Float64:
		x, _ := a.Float64()
		y, _ := b.Float64()
		return math.Float64bits(x) == math.Float64bits(y)
	case literal.Text:
		x, _ := a.Text()
		y, _ := b.Text()
		return x == y
	default:
		x, _ := a.Blob()
		y, _ := b.Blob()
		return string(x) == string(y)
	}
}

// C06: the UUID of a literal is defined for every value (no panic), in
// particular for every int64.
func HarnessC06LiteralDefined() {
	kind := verif.Choice("kind", 5)
	l := symLiteral("a", kind, verif.Choice("len", verif.Param("L", 3)+1))
	var u uuid.UUID
	if !noPanic("C06/literal/uuid-defined", func() { u = l.UUID() }) {
		return
	}
	verif.Reach("uuid")
	verif.Assert(len(u) == 16, "C06/literal/uuid-length")
	verif.Assert(uuid.Equal(l.UUID(), u), "C06/literal/uuid-deterministic")
}

// C06: two literals have the same UUID exactly when kind and value are equal.
func HarnessC06LiteralPair() {
	ka, kb := verif.Choice("ka", 5), verif.Choice("kb", 5)
	L := verif.Param("L", 2)
	a := symLiteral("a", ka, verif.Choice("la", L+1))
	b := symLiteral("b", kb, verif.Choice("lb", L+1))
	same := sameLiteral(a, b)
	if a.Type() != b.Type() {
		verif.Class("different-literal-kinds")
	}
	var ua, ub uuid.UUID
	if !noPanic("C06/literal/pair-uuid-defined", func() { ua, ub = a.UUID(), b.UUID() }) {
		return
	}
	verif.Reach("uuids")
	verif.Assert(uuid.Equal(ua, ub) == same, "C06/literal/uuid-iff-equal")
}

// C06: text "true"/"false" versus the bool literal (needs 4..5 text bytes).
func HarnessC06LiteralBoolText() {
	a := symLiteral("a", 0, 0)
	b := symLiteral("b", 3, 4+verif.Choice("lb", 2))
	verif.Class("different-literal-kinds")
	verif.Reach("uuids")
	verif.Assert(!uuid.Equal(a.UUID(), b.UUID()), "C06/literal/uuid-iff-equal")
}

var zonePool = []*time.Location{time.UTC, time.FixedZone("plus2", 7200), time.FixedZone("minus8", -8*3600)}

var secPool = []int64{0, 1, 1600000000}

// symPredicate: kind 0 immutable; kind 1 temporal with the second drawn from
// a concrete pool and a symbolic nanosecond in [0, 1e9), in a zone from the
// pool; kind 2 temporal with a fully concrete anchor from anchorPool.
func symPredicate(name string, kind, idLen int) *predicate.Predicate {
	id := verif.String(name+".id", idLen)
	var p *predicate.Predicate
	var err error
	switch kind {
	case 0:
		p, err = predicate.NewImmutable(id)
	case 1:
		sec, nsec := secPool[verif.Choice(name+".sec", len(secPool))], verif.Int64(name+".nsec")
		verif.Assume(verif.And(nsec >= 0, nsec < 1000000000))
		t := time.Unix(sec, nsec).In(zonePool[verif.Choice(name+".zone", len(zonePool))])
		p, err = predicate.NewTemporal(id, t)
	default:
		p, err = predicate.NewTemporal(id, anchorPool[verif.Choice(name+".anchor", len(anchorPool))])
	}
	verif.Assume(err == nil)
	return p
}

// anchorPool: two spellings of one instant in different zones, a later
// instant, and one with nanosecond precision.
var anchorPool = []time.Time{
	time.Date(2020, 1, 1, 12, 0, 0, 0, time.UTC),
	time.Date(2020, 1, 1, 14, 0, 0, 0, time.FixedZone("plus2", 7200)),
	time.Date(2021, 6, 30, 23, 59, 59, 0, time.UTC),
	time.Date(2020, 1, 1, 12, 0, 0, 1, time.UTC),
}

func samePredicate(a, b *predicate.Predicate) bool {
	if a.Type() != b.Type() {
		return false
	}
	if a.Type() == predicate.Immutable {
		return a.ID() == b.ID()
	}
	ta, _ := a.TimeAnchor()
	tb, _ := b.TimeAnchor()
	return verif.And(a.ID() == b.ID(), verif.And(ta.Unix() == tb.Unix(), ta.Nanosecond() == tb.Nanosecond()))
}

// C06: two predicates have the same UUID exactly when id, kind and instant agree
// (whatever the zone); equal ids give equal partial UUIDs.
func HarnessC06Predicate() {
	L := verif.Param("L", 2)
	a := symPredicate("a", verif.Choice("ka", 2), 1+verif.Choice("la", L))
	b := symPredicate("b", verif.Choice("kb", 2), 1+verif.Choice("lb", L))
	same := samePredicate(a, b)
	var ua, ub uuid.UUID
	if !noPanic("C06/predicate/uuid-defined", func() { ua, ub = a.UUID(), b.UUID() }) {
		return
	}
	verif.Reach("uuids")
	verif.Assert(uuid.Equal(ua, ub) == same, "C06/predicate/uuid-iff-equal")
	verif.Assert(uuid.Equal(a.PartialUUID(), b.PartialUUID()) == (a.ID() == b.ID()), "C06/predicate/partial-uuid-iff-same-id")
	// the UUID is a function of the value: asking again, after other values
	// were hashed (pooled buffers may come back dirty), gives the same bytes
	verif.Assert(uuid.Equal(a.UUID(), ua), "C06/predicate/uuid-deterministic")
	verif.Assert(uuid.Equal(b.UUID(), ub), "C06/predicate/uuid-deterministic")
}

// symObject: 0 node, 1 text literal, 2 immutable predicate, 3 int64 literal.
func symObject(name string, kind int) *triple.Object {
	switch kind {
	case 0:
		return triple.NewNodeObject(symNode(name+".n", 1, 1))
	case 1:
		return triple.NewLiteralObject(symLiteral(name+".l", 3, 1))
	case 2:
		return triple.NewPredicateObject(symPredicate(name+".p", 0, 1))
	default:
		// small int64 values only (one varint byte); the full range is HarnessC06LiteralPair's
		l := symLiteral(name+".l", 1, 0)
		v, _ := l.Int64()
		verif.Assume(verif.And(v >= 0, v < 64))
		return triple.NewLiteralObject(l)
	}
}

func sameObject(a, b *triple.Object) bool {
	an, _ := a.Node()
	bn, _ := b.Node()
	al, _ := a.Literal()
	bl, _ := b.Literal()
	ap, _ := a.Predicate()
	bp, _ := b.Predicate()
	switch {
	case an != nil && bn != nil:
		return sameNode(an, bn)
	case al != nil && bl != nil:
		return sameLiteral(al, bl)
	case ap != nil && bp != nil:
		return samePredicate(ap, bp)
	}
	return false
}

// C06: objects and triples: same UUID / Equal exactly when the components agree.
func HarnessC06Triple() {
	s1, s2 := symNode("s1", 1, 1), symNode("s2", 1, 1)
	p1 := symPredicate("p1", 2*verif.Choice("kp1", 2), 1)
	p2 := symPredicate("p2", 2*verif.Choice("kp2", 2), 1)
	ko1, ko2 := verif.Choice("ko1", 4), verif.Choice("ko2", 4)
	o1, o2 := symObject("o1", ko1), symObject("o2", ko2)
	t1, err1 := triple.New(s1, p1, o1)
	t2, err2 := triple.New(s2, p2, o2)
	verif.Assume(err1 == nil && err2 == nil)
	if ko1 != ko2 {
		verif.Class("different-object-kinds")
	}
	sameO := sameObject(o1, o2)
	same := verif.And(sameNode(s1, s2), verif.And(samePredicate(p1, p2), sameO))
	var eq, oeq bool
	if !noPanic("C06/triple/uuid-defined", func() {
		oeq = uuid.Equal(o1.UUID(), o2.UUID())
		eq = t1.Equal(t2)
	}) {
		return
	}
	verif.Reach("compared")
	verif.Assert(oeq == sameO, "C06/object/uuid-iff-equal")
	verif.Assert(eq == same, "C06/triple/equal-iff-components-equal")
	verif.Assert(uuid.Equal(t1.UUID(), t2.UUID()) == eq, "C06/triple/uuid-consistent-with-equal")
	u1 := t1.UUID()
	t2.UUID()
	verif.Assert(uuid.Equal(t1.UUID(), u1), "C06/triple/uuid-deterministic")
}

func symPredicateFromID(id string, kind int) *predicate.Predicate {
	var p *predicate.Predicate
	var err error
	if kind == 0 {
		p, err = predicate.NewImmutable(id)
	} else {
		p, err = predicate.NewTemporal(id, anchorPool[verif.Choice("anchor", len(anchorPool))])
	}
	verif.Assume(err == nil)
	return p
}

func symLiteralText(s string) *literal.Literal {
	l, err := literal.DefaultBuilder().Build(literal.Text, s)
	verif.Assume(err == nil)
	return l
}

func symLiteralInt(v int64) *literal.Literal {
	l, err := literal.DefaultBuilder().Build(literal.Int64, v)
	verif.Assume(err == nil)
	return l
}

func symLiteralBool(v bool) *literal.Literal {
	l, err := literal.DefaultBuilder().Build(literal.Bool, v)
	verif.Assume(err == nil)
	return l
}

// C06 (concurrent): the UUID of a value is the same in every goroutine: two
// goroutines compute UUIDs of different values at the same time, sharing the
// sync.Pool of scratch buffers (Get may hand out the buffer the other goroutine
// has just Put); every schedule at Get/Put granularity is explored.  Each
// result must equal the UUID computed before the goroutines started.
// Natively (replay) the values are large and the goroutines many, so that a
// schedule-dependent counterexample has a chance to show.
func HarnessC06Concurrent() {
	idLen, workers, reps := 2, 2, 1
	if !verif.Symbolic() {
		idLen, workers, reps = 1<<16, 8, 40
	}
	mkID := func(c byte) string {
		b := make([]byte, idLen)
		for i := range b {
			b[i] = c
		}
		return string(b)
	}
	kind := verif.Choice("kind", 4)
	uuidOf := func(w int) uuid.UUID {
		id := mkID(byte('a' + w%2))
		switch kind {
		case 0:
			n, err := node.NewNodeFromStrings("/t", id)
			verif.Assume(err == nil)
			return n.UUID()
		case 1:
			p, err := predicate.NewImmutable(id)
			verif.Assume(err == nil)
			return p.UUID()
		case 2:
			l, err := literal.DefaultBuilder().Build(literal.Text, id)
			verif.Assume(err == nil)
			return l.UUID()
		default:
			n, err := node.NewNodeFromStrings("/t", id)
			verif.Assume(err == nil)
			p, err := predicate.NewImmutable(id)
			verif.Assume(err == nil)
			t, err := triple.New(n, p, triple.NewNodeObject(n))
			verif.Assume(err == nil)
			return t.UUID()
		}
	}
	want := []uuid.UUID{uuidOf(0), uuidOf(1)}
	got := make([][]uuid.UUID, workers)
	done := make(chan int, workers)
	for w := 0; w < workers; w++ {
		w := w
		go func() {
			for r := 0; r < reps; r++ {
				got[w] = append(got[w], uuidOf(w))
			}
			done <- w
		}()
	}
	for w := 0; w < workers; w++ {
		<-done
	}
	verif.Reach("joined")
	for w := 0; w < workers; w++ {
		for _, u := range got[w] {
			verif.Assert(uuid.Equal(u, want[w%2]), "C06/concurrent/same-uuid-in-every-goroutine")
		}
	}
}

// C06 (anchors at large): two temporal predicates with the same identifier
// anchored at time.Unix(s, n), s symbolic over [0, 2^33) seconds (1970-2242)
// and n over [0, 1e9): same UUID exactly when the instants are equal.
func HarnessC06AnchorWide() {
	s1, s2 := verif.Int64("s1"), verif.Int64("s2")
	n1, n2 := verif.Int64("n1"), verif.Int64("n2")
	lim := int64(1) << uint(verif.Param("SECBITS", 33))
	// the window starts in 1970 or at Go's zero time (year 1); inside a window of
	// 2^33 seconds UnixNano does not wrap around
	base := []int64{0, -62135596800}[verif.Choice("base", 2)]
	verif.Assume(verif.And(verif.And(s1 >= base, s1 < base+lim), verif.And(s2 >= base, s2 < base+lim)))
	verif.Assume(verif.And(verif.And(n1 >= 0, n1 < 1000000000), verif.And(n2 >= 0, n2 < 1000000000)))
	a, e1 := predicate.NewTemporal("p", time.Unix(s1, n1).UTC())
	b, e2 := predicate.NewTemporal("p", time.Unix(s2, n2).UTC())
	verif.Assume(e1 == nil && e2 == nil)
	var ua, ub uuid.UUID
	if !noPanic("C06/anchor/uuid-defined", func() { ua, ub = a.UUID(), b.UUID() }) {
		return
	}
	verif.Reach("uuids")
	verif.Assert(uuid.Equal(ua, ub) == verif.And(s1 == s2, n1 == n2), "C06/anchor/uuid-iff-same-instant")
	im, e3 := predicate.NewImmutable("p")
	verif.Assume(e3 == nil)
	verif.Assert(!uuid.Equal(ua, im.UUID()), "C06/anchor/temporal-never-equals-immutable")
}

// C06 (blank nodes): the ids of blank nodes are UUID text in practice
// (node.NewBlankNode); two blank nodes whose ids are that text with one
// symbolic hexadecimal digit each (either case, at the start, in the middle or
// at the end) have the same UUID exactly when the ids are
// equal - case included.
func HarnessC06BlankNode() {
	const tmpl = "6ba7b810-9dad-11d1-80b4-00c04fd430c8"
	positions := []int{0, 10, 35}
	mk := func(name string) (*node.Node, string) {
		i := positions[verif.Choice(name+".pos", len(positions))]
		x := verif.Byte(name + ".x")
		// a hexadecimal digit in either case (with any other character the id is not
		// UUID text, and the abstraction of SHA-1 as an uninterpreted function says
		// nothing about a hash output against bytes that are not a hash output)
		verif.Assume(verif.Or(verif.And(x >= '0', x <= '9'), verif.Or(verif.And(x >= 'a', x <= 'f'), verif.And(x >= 'A', x <= 'F'))))
		id := tmpl[:i] + string([]byte{x}) + tmpl[i+1:]
		if verif.Choice(name+".urn", 2) == 1 {
			id = "urn:uuid:" + id
		}
		n, err := node.NewNodeFromStrings("/_", id)
		verif.Assume(err == nil)
		return n, id
	}
	a, ia := mk("a")
	b, ib := mk("b")
	var ua, ub uuid.UUID
	if !noPanic("C06/blank/uuid-defined", func() { ua, ub = a.UUID(), b.UUID() }) {
		return
	}
	verif.Reach("uuids")
	verif.Assert(uuid.Equal(ua, ub) == (ia == ib), "C06/blank/uuid-iff-equal")
}
