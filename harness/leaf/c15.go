package zzleaf

import (
	verif "github.com/google/badwolf/internal/zzverif"
	"github.com/google/badwolf/triple"
	"github.com/google/badwolf/triple/literal"
	"github.com/google/badwolf/triple/node"
	"github.com/google/badwolf/triple/predicate"
)

// C15 (a): node.Parse on every string of length ≤ N over all 256 byte values.
func HarnessC15Node() {
	n := verif.Choice("len", verif.Param("N", 4)+1)
	s := verif.String("s", n)
	var nd *node.Node
	var err error
	if !noPanic("C15/node/no-panic", func() { nd, err = node.Parse(s) }) {
		return
	}
	verif.Reach("returned")
	verif.Assert(!(nd == nil && err == nil), "C15/node/value-or-error")
	if err != nil {
		return
	}
	verif.Reach("accepted")
	verif.Assert(nd != nil && nd.Type() != nil && nd.ID() != nil, "C15/node/well-formed")
	if nd == nil || nd.Type() == nil || nd.ID() == nil {
		return
	}
	p := nd.String()
	var nd2 *node.Node
	var err2 error
	if !noPanic("C15/node/reparse-no-panic", func() { nd2, err2 = node.Parse(p) }) {
		return
	}
	verif.Assert(err2 == nil, "C15/node/reparse-accepted")
	if err2 == nil {
		verif.Assert(nd2.Type().String() == nd.Type().String() && nd2.ID().String() == nd.ID().String(), "C15/node/reparse-equal")
		verif.Assert(nd2.String() == p, "C15/node/reprint-stable")
	}
}

// C15 (a): predicate.Parse on every string of length ≤ N.
func HarnessC15Predicate() {
	n := verif.Choice("len", verif.Param("N", 4)+1)
	s := verif.String("s", n)
	var p *predicate.Predicate
	var err error
	if !noPanic("C15/predicate/no-panic", func() { p, err = predicate.Parse(s) }) {
		return
	}
	verif.Reach("returned")
	verif.Assert(!(p == nil && err == nil), "C15/predicate/value-or-error")
	if err != nil || p == nil {
		return
	}
	verif.Reach("accepted")
	if p.Type() != predicate.Immutable {
		// anchors are printed/parsed by the time package on concrete text only
		return
	}
	id := string(p.ID())
	if contains(id, "\"@[") {
		verif.Class("id-contains-quote-at-bracket")
	}
	out := p.String()
	var p2 *predicate.Predicate
	var err2 error
	if !noPanic("C15/predicate/reparse-no-panic", func() { p2, err2 = predicate.Parse(out) }) {
		return
	}
	verif.Assert(err2 == nil, "C15/predicate/reparse-accepted")
	if err2 == nil && p2 != nil {
		verif.Assert(p2.ID() == p.ID() && p2.Type() == p.Type(), "C15/predicate/reparse-equal")
	}
}

// C15 (a): literal parsing (unbound and bounded builder) on every string of length ≤ N.
func HarnessC15Literal() {
	n := verif.Choice("len", verif.Param("N", 4)+1)
	s := verif.String("s", n)
	b := literal.DefaultBuilder()
	if verif.Choice("builder", 2) == 1 {
		b = literal.NewBoundedBuilder(2)
	}
	var l *literal.Literal
	var err error
	if !noPanic("C15/literal/no-panic", func() { l, err = b.Parse(s) }) {
		return
	}
	verif.Reach("returned")
	verif.Assert(!(l == nil && err == nil), "C15/literal/value-or-error")
	if err != nil || l == nil {
		return
	}
	verif.Reach("accepted")
	verif.Assert(l.Interface() != nil, "C15/literal/well-formed")
}

// C15 (a'): literal suffix templates: `"` + hole + `"^^type:` + T for every type
// name, the hole ranging over all strings of length ≤ N.
func HarnessC15LiteralTyped() {
	types := []string{"bool", "int64", "float64", "text", "blob", "foo", ""}
	t := types[verif.Choice("type", len(types))]
	n := verif.Choice("len", verif.Param("N", 3)+1)
	hole := verif.String("v", n)
	pre := "\""
	if verif.Choice("noquote", 2) == 1 {
		pre = ""
	}
	s := pre + hole + "\"^^type:" + t
	b := literal.DefaultBuilder()
	if verif.Choice("builder", 2) == 1 {
		b = literal.NewBoundedBuilder(1) // text and blob values longer than one byte are rejected with an error
	}
	var l *literal.Literal
	var err error
	if !noPanic("C15/literal/no-panic", func() { l, err = b.Parse(s) }) {
		return
	}
	verif.Reach("returned")
	verif.Assert(!(l == nil && err == nil), "C15/literal/value-or-error")
	if err != nil || l == nil {
		return
	}
	verif.Reach("accepted")
	if l.Type() == literal.Float64 {
		return // float formatting is native-only (concrete pool, see C05)
	}
	if l.Type() == literal.Text {
		txt, _ := l.Text()
		if contains(txt, "\"^^type:") {
			verif.Class("text-contains-type-delimiter")
		}
	}
	out := l.String()
	var l2 *literal.Literal
	var err2 error
	if !noPanic("C15/literal/reparse-no-panic", func() { l2, err2 = b.Parse(out) }) {
		return
	}
	verif.Assert(err2 == nil && l2 != nil, "C15/literal/reparse-accepted")
	if err2 == nil && l2 != nil {
		verif.Assert(l2.Type() == l.Type(), "C15/literal/reparse-same-type")
		verif.Assert(l2.String() == out, "C15/literal/reprint-stable")
	}
}

// C15 (a): triple.ParseObject on every string of length ≤ N.
func HarnessC15Object() {
	n := verif.Choice("len", verif.Param("N", 4)+1)
	s := verif.String("s", n)
	var o *triple.Object
	var err error
	if !noPanic("C15/object/no-panic", func() { o, err = triple.ParseObject(s, literal.DefaultBuilder()) }) {
		return
	}
	verif.Reach("returned")
	verif.Assert(!(o == nil && err == nil), "C15/object/value-or-error")
	if err != nil || o == nil {
		return
	}
	verif.Reach("accepted")
	nd, _ := o.Node()
	pr, _ := o.Predicate()
	li, _ := o.Literal()
	verif.Assert(nd != nil || pr != nil || li != nil, "C15/object/boxes-a-value")
}

// C15 (a'): predicate templates `"` id `"@[` anchor `]` with symbolic id and
// anchor holes (the shortest accepted predicate is longer than the all-strings bound).
func HarnessC15PredicateTemplate() {
	ni := verif.Choice("idlen", verif.Param("ID", 3)+1)
	na := verif.Choice("anchorlen", verif.Param("A", 2)+1)
	id := verif.String("id", ni)
	an := verif.String("an", na)
	if verif.Param("ASCII", 0) == 1 {
		for i := 0; i < len(id); i++ {
			verif.Assume(id[i] < 0x80)
		}
		for i := 0; i < len(an); i++ {
			verif.Assume(an[i] < 0x80)
		}
	}
	tail := []string{"]", "", "\"]", "]]"}[verif.Choice("tail", 4)]
	s := "\"" + id + "\"@[" + an + tail
	var p *predicate.Predicate
	var err error
	if !noPanic("C15/predicate/no-panic", func() { p, err = predicate.Parse(s) }) {
		return
	}
	verif.Reach("returned")
	verif.Assert(!(p == nil && err == nil), "C15/predicate/value-or-error")
	if err != nil || p == nil {
		return
	}
	verif.Reach("accepted")
	if p.Type() != predicate.Immutable {
		return
	}
	pid := string(p.ID())
	if contains(pid, "\"@[") {
		verif.Class("id-contains-quote-at-bracket")
	}
	out := p.String()
	var p2 *predicate.Predicate
	var err2 error
	if !noPanic("C15/predicate/reparse-no-panic", func() { p2, err2 = predicate.Parse(out) }) {
		return
	}
	verif.Assert(err2 == nil, "C15/predicate/reparse-accepted")
	if err2 == nil && p2 != nil {
		verif.Assert(p2.ID() == p.ID() && p2.Type() == p.Type(), "C15/predicate/reparse-equal")
		verif.Assert(p2.String() == out, "C15/predicate/reprint-stable")
	}
}

var c15TripleTemplates = [][2]string{
	{"/u<", ">\t\"p\"@[]\t/u<c>"},
	{"/u<a>\t\"", "\"@[]\t/u<c>"},
	{"/u<a>\t\"p\"@[", "]\t/u<c>"},
	{"/u<a>\t\"p\"@[]\t/u<", ">"},
	{"/u<a>\t\"p\"@[]\t\"", "\"^^type:text"},
	{"/u<a>", "\"p\"@[]\t/u<c>"},
	{"/u<a>\t\"p\"@[]", "/u<c>"},
	{"", "\t\"p\"@[]\t/u<c>"},
	{"/u<a>\t\"p\"@[]\t", ""},
	{"", ""},
	{" /u<a>\t\"p\"@[]\t", ""},
	{"\t", "/u<a>\t\"p\"@[]\t/u<c> "},
	{"  /u<a>\t\"p\"@[]", "\t/u<c>"},
	// several blanks before the triple and an object of up to N bytes (offsets taken
	// before trimming would point past the end of the trimmed text)
	{"\t\t\t/u<a>\t\"p\"@[]\t", ""},
	{"   /u<a>\t\"p\"@[]\t", "  "},
}

// C15 (b): triple.Parse on valid triple text with a hole of up to N symbolic
// 7-bit bytes (inside the subject, the predicate id, the anchor, a node or text
// object, in place of a separator or of a whole component, and the string made
// of the hole alone): it returns a well-formed triple or an error, never
// panics, and what it accepts prints to text it accepts again as an equal
// triple.
func HarnessC15Triple() {
	tp := c15TripleTemplates[verif.Choice("template", len(c15TripleTemplates))]
	n := verif.Choice("len", verif.Param("N", 3)+1)
	hole := verif.String("hole", n)
	for i := 0; i < len(hole); i++ {
		verif.Assume(hole[i] < 0x80)
	}
	s := tp[0] + hole + tp[1]
	var t *triple.Triple
	var err error
	if !noPanic("C15/triple/no-panic", func() { t, err = triple.Parse(s, literal.DefaultBuilder()) }) {
		return
	}
	verif.Reach("returned")
	verif.Assert(!(t == nil && err == nil), "C15/triple/value-or-error")
	if err != nil || t == nil {
		return
	}
	verif.Reach("accepted")
	verif.Assert(t.Subject() != nil && t.Predicate() != nil && t.Object() != nil, "C15/triple/well-formed")
	if t.Predicate().Type() != predicate.Immutable {
		return
	}
	out := t.String()
	var t2 *triple.Triple
	var err2 error
	if !noPanic("C15/triple/reparse-no-panic", func() { t2, err2 = triple.Parse(out, literal.DefaultBuilder()) }) {
		return
	}
	if contains(out, "\"@[") && countOf(out, "\"@[") > 1 || contains(out, "\"^^type:") && countOf(out, "\"^^type:") > 1 {
		verif.Class("component-text-contains-a-delimiter")
	}
	verif.Assert(err2 == nil, "C15/triple/reparse-accepted")
	if err2 == nil && t2 != nil {
		verif.Assert(t2.String() == out, "C15/triple/reprint-stable")
	}
}

func countOf(s, sub string) int {
	n := 0
	for i := 0; i+len(sub) <= len(s); i++ {
		if s[i:i+len(sub)] == sub {
			n++
		}
	}
	return n
}
