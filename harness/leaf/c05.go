package zzleaf

import (
	"math"

	verif "github.com/google/badwolf/internal/zzverif"
	"github.com/google/badwolf/triple"
	"github.com/google/badwolf/triple/literal"
	"github.com/google/badwolf/triple/node"
	"github.com/google/badwolf/triple/predicate"
)

// C05 (a): printed nodes parse back to equal nodes and re-print identically.
func HarnessC05Node() {
	L := verif.Param("L", 3)
	n := symNode("n", 1+verif.Choice("tl", L), 1+verif.Choice("il", L))
	txt := n.String()
	var n2 *node.Node
	var err error
	if !noPanic("C05/node/no-panic", func() { n2, err = node.Parse(txt) }) {
		return
	}
	verif.Reach("parsed")
	verif.Assert(err == nil, "C05/node/parses-back")
	if err != nil {
		return
	}
	verif.Assert(sameNode(n, n2), "C05/node/equal")
	verif.Assert(n2.String() == txt, "C05/node/reprint")
}

// C05 (b): predicates: id of any non-whitespace bytes (quotes, brackets,
// backslashes, non-ASCII), immutable or anchored at an instant from the pool.
func HarnessC05Predicate() {
	L := verif.Param("L", 3)
	id := verif.String("id", 1+verif.Choice("l", L))
	if verif.Param("ASCII", 0) == 1 {
		for i := 0; i < len(id); i++ {
			verif.Assume(id[i] < 0x80)
		}
	}
	verif.Assume(noSpace(id))
	if earlyAnchor(id) {
		verif.Class("predicate-id-forms-early-anchor-delimiter")
	}
	kind := 2 * verif.Choice("kind", 2)
	p := symPredicateFromID(id, kind)
	txt := p.String()
	var p2 *predicate.Predicate
	var err error
	if !noPanic("C05/predicate/no-panic", func() { p2, err = predicate.Parse(txt) }) {
		return
	}
	verif.Reach("parsed")
	verif.Assert(err == nil, "C05/predicate/parses-back")
	if err != nil {
		return
	}
	verif.Assert(p2.ID() == p.ID() && p2.Type() == p.Type(), "C05/predicate/equal")
	if p.Type() == predicate.Temporal && p2.Type() == predicate.Temporal {
		a, _ := p.TimeAnchor()
		b, _ := p2.TimeAnchor()
		_, oa := a.Zone()
		_, ob := b.Zone()
		verif.Assert(a.Equal(*b) && oa == ob, "C05/predicate/same-instant-and-offset")
	}
	verif.Assert(p2.String() == txt, "C05/predicate/reprint")
}

// C05 (b'): printing is a function of the value alone: several values are
// printed one after the other (nodes, predicates anchored at instants that may
// coincide in different zones, literals) and each text must still parse back to
// its own value, offset included - whatever was printed before.
func HarnessC05Sequence() {
	n := 2 + verif.Choice("n", verif.Param("N", 1))
	var ps []*predicate.Predicate
	for i := 0; i < n; i++ {
		id := verif.String("id", 1)
		verif.Assume(verif.And(verif.And(id[0] > ' ', id[0] < 0x7f), verif.And(id[0] != '"', id[0] != '\\')))
		ps = append(ps, symPredicateFromID(id, 2*verif.Choice("kind", 2)))
	}
	var txts []string
	for _, p := range ps {
		txts = append(txts, p.String())
	}
	verif.Reach("printed")
	for i, p := range ps {
		verif.Assert(p.String() == txts[i], "C05/sequence/same-text-on-every-call")
		p2, err := predicate.Parse(txts[i])
		verif.Assert(err == nil, "C05/sequence/parses-back")
		if err != nil {
			continue
		}
		verif.Assert(p2.ID() == p.ID() && p2.Type() == p.Type(), "C05/sequence/equal")
		if p.Type() == predicate.Temporal && p2.Type() == predicate.Temporal {
			a, _ := p.TimeAnchor()
			b, _ := p2.TimeAnchor()
			_, oa := a.Zone()
			_, ob := b.Zone()
			verif.Assert(a.Equal(*b) && oa == ob, "C05/sequence/same-instant-and-offset")
		}
	}
}

// C05 (c): literals.
func HarnessC05Literal() {
	kind := []int{0, 2, 3, 4}[verif.Choice("kind", 4)] // int64: HarnessC05Int64
	n := 0
	switch kind {
	case 3:
		n = verif.Choice("len", verif.Param("T", 3)+1)
	case 4:
		n = verif.Choice("len", verif.Param("B", 2)+1)
	}
	l := symLiteral("l", kind, n)
	if kind == 3 {
		t, _ := l.Text()
		if earlyTypeDelimiter(t) {
			verif.Class("text-forms-early-type-delimiter")
		}
	}
	txt := l.String()
	var l2 *literal.Literal
	var err error
	if !noPanic("C05/literal/no-panic", func() { l2, err = literal.DefaultBuilder().Parse(txt) }) {
		return
	}
	verif.Reach("parsed")
	verif.Assert(err == nil && l2 != nil, "C05/literal/parses-back")
	if err != nil || l2 == nil {
		return
	}
	if kind == 2 {
		// NaN != NaN: compare bit patterns, but any NaN counts as NaN
		x, _ := l.Float64()
		y, ok := l2.Float64()
		verif.Assert(ok == nil && (math.Float64bits(x) == math.Float64bits(y) || (x != x && y != y)), "C05/literal/equal")
	} else {
		verif.Assert(sameLiteral(l, l2), "C05/literal/equal")
	}
	verif.Assert(l2.String() == txt, "C05/literal/reprint")
}

// C05 (c-bounded): what a bounded builder builds it also parses back: text
// and blob literals of up to MAX+1 symbolic bytes against NewBoundedBuilder(MAX)
// - Build and Parse accept exactly the same sizes (the bound included), and an
// accepted literal parses back equal.
func HarnessC05Bounded() {
	max := 1 + verif.Choice("max", verif.Param("MAX", 2))
	b := literal.NewBoundedBuilder(max)
	n := verif.Choice("len", max+2)
	var l *literal.Literal
	var err error
	isText := verif.Choice("kind", 2) == 0
	if isText {
		t := verif.String("t", n)
		verif.Assume(!earlyTypeDelimiter(t))
		l, err = b.Build(literal.Text, t)
	} else {
		l, err = b.Build(literal.Blob, verif.Bytes("t", n))
	}
	verif.Reach("built")
	verif.Assert((err == nil) == (n <= max), "C05/bounded/build-accepts-up-to-the-bound")
	if err != nil || l == nil {
		return
	}
	txt := l.String()
	var l2 *literal.Literal
	var err2 error
	if !noPanic("C05/bounded/no-panic", func() { l2, err2 = b.Parse(txt) }) {
		return
	}
	verif.Assert(err2 == nil && l2 != nil, "C05/bounded/parses-back")
	if err2 == nil && l2 != nil {
		verif.Assert(sameLiteral(l, l2), "C05/bounded/equal")
	}
}

// C05 (c'): text literals long enough to hold the delimiter `"^^type:`.
func HarnessC05LongText() {
	n := verif.Param("T", 8) + verif.Choice("extra", 3)
	l := symLiteral("l", 3, n)
	t, _ := l.Text()
	if earlyTypeDelimiter(t) {
		verif.Class("text-forms-early-type-delimiter")
	}
	txt := l.String()
	l2, err := literal.DefaultBuilder().Parse(txt)
	verif.Reach("parsed")
	verif.Assert(err == nil && l2 != nil, "C05/literal/parses-back")
	if err != nil || l2 == nil {
		return
	}
	verif.Assert(sameLiteral(l, l2), "C05/literal/equal")
}

// C05 (d): triples: components with symbolic content, printed and parsed back.
func HarnessC05Triple() {
	s := symNode("s", 1, 1+verif.Choice("sil", verif.Param("SI", 1)))
	pid := verif.String("pid", 1+verif.Choice("pl", verif.Param("PI", 1)))
	verif.Assume(noSpace(pid))
	if verif.Param("ASCII", 1) == 1 {
		for i := 0; i < len(pid); i++ {
			verif.Assume(pid[i] < 0x80)
		}
		sid, sty := s.ID().String(), s.Type().String()
		for i := 0; i < len(sid); i++ {
			verif.Assume(sid[i] < 0x80)
		}
		for i := 0; i < len(sty); i++ {
			verif.Assume(sty[i] < 0x80)
		}
	}
	if earlyAnchor(pid) {
		verif.Class("predicate-id-forms-early-anchor-delimiter")
	}
	p := symPredicateFromID(pid, 2*verif.Choice("pk", 2))
	ko := verif.Choice("ko", 4)
	var o *triple.Object
	switch ko {
	case 0:
		o = triple.NewNodeObject(symNode("on", 1, 1))
	case 1:
		txt := verif.String("ot", verif.Choice("otl", verif.Param("OT", 1)+1))
		verif.Assume(verif.And(noByte(txt, '\n'), noByte(txt, '\r')))
		o = triple.NewLiteralObject(symLiteralText(txt))
	case 2:
		oid := verif.String("oid", 1)
		verif.Assume(noSpace(oid))
		o = triple.NewPredicateObject(symPredicateFromID(oid, 0))
	default:
		v := verif.Int64("ov")
		verif.Assume(verif.And(v > -1000, v < 1000))
		o = triple.NewLiteralObject(symLiteralInt(v))
	}
	t, err := triple.New(s, p, o)
	verif.Assume(err == nil)
	txt := t.String()
	var t2 *triple.Triple
	var err2 error
	if !noPanic("C05/triple/no-panic", func() { t2, err2 = triple.Parse(txt, literal.DefaultBuilder()) }) {
		return
	}
	verif.Reach("parsed")
	verif.Assert(err2 == nil, "C05/triple/parses-back")
	if err2 != nil {
		return
	}
	verif.Assert(sameNode(t.Subject(), t2.Subject()), "C05/triple/subject-equal")
	verif.Assert(t2.Predicate().String() == t.Predicate().String(), "C05/triple/predicate-equal")
	verif.Assert(sameObject(t.Object(), t2.Object()), "C05/triple/object-equal")
	verif.Assert(t2.String() == txt, "C05/triple/reprint")
}

// earlyAnchor: the printed form "<quoted id>"@[...] contains the three bytes
// `"@[` before the real end of the id — the id starts with @[ (right after the
// opening quote) or contains `"@[` (after the escaped quote).
func earlyAnchor(id string) bool {
	if len(id) >= 2 && id[0] == '@' && id[1] == '[' {
		return true
	}
	return contains(id, "\"@[")
}

// earlyTypeDelimiter: the printed form "<text>"^^type:text contains the bytes
// `"^^type:` before the real end of the text — the text starts with ^^type:
// (right after the opening quote) or contains `"^^type:`.
func earlyTypeDelimiter(t string) bool {
	if len(t) >= 7 && t[:7] == "^^type:" {
		return true
	}
	return contains(t, "\"^^type:")
}

// C05 (c''): int64 literals over the full 64-bit range: decimal printing
// (witness digits) and strconv.ParseInt (interpreted) must be inverse.
func HarnessC05Int64() {
	v := verif.Int64("v")
	if verif.Param("BITS", 64) < 64 {
		lim := int64(1) << uint(verif.Param("BITS", 64))
		verif.Assume(verif.And(v > -lim, v < lim))
	}
	l := symLiteralInt(v)
	txt := l.String()
	l2, err := literal.DefaultBuilder().Parse(txt)
	verif.Reach("parsed")
	verif.Assert(err == nil && l2 != nil, "C05/int64/parses-back")
	if err != nil || l2 == nil {
		return
	}
	v2, err2 := l2.Int64()
	verif.Assert(err2 == nil && v2 == v, "C05/int64/equal")
}

// C04 (reification kernel): Triple.Reify of a symbolic triple (temporal or
// immutable predicate, node / literal / predicate object with its own kind and
// anchor) yields the triple itself and exactly the three reification triples
// on one blank node: _subject -> the subject, _predicate -> the predicate,
// _object -> the object, each reification predicate following the kind and the
// anchor of the reified fact's predicate.
func HarnessC04Reify() {
	s := symNode("s", 1, 1)
	p := symPredicateFromID(verif.String("p", 1), 2*verif.Choice("pk", 2))
	var o *triple.Object
	switch verif.Choice("ok", 4) {
	case 0:
		o = triple.NewNodeObject(symNode("o", 1, 1))
	case 1:
		o = triple.NewLiteralObject(symLiteralText(verif.String("ot", 1)))
	case 2:
		o = triple.NewPredicateObject(symPredicateFromID(verif.String("op", 1), 0))
	default:
		o = triple.NewPredicateObject(symPredicateFromID(verif.String("op", 1), 2))
	}
	t, err := triple.New(s, p, o)
	verif.Assume(err == nil)
	ts, b, rerr := t.Reify()
	verif.Reach("reified")
	verif.Assert(rerr == nil && b != nil && len(ts) == 4, "C04/reify-kernel/four-triples")
	if rerr != nil || len(ts) != 4 {
		return
	}
	verif.Assert(ts[0] == t, "C04/reify-kernel/first-is-the-fact")
	want := []string{"_subject", "_predicate", "_object"}
	for i, r := range ts[1:] {
		verif.Assert(r != nil && r.Subject() == b, "C04/reify-kernel/on-the-blank-node")
		if r == nil {
			return
		}
		rp := r.Predicate()
		verif.Assert(string(rp.ID()) == want[i] && rp.Type() == p.Type(), "C04/reify-kernel/reification-predicate-follows-the-fact")
		if p.Type() == predicate.Temporal && rp.Type() == predicate.Temporal {
			a, _ := p.TimeAnchor()
			ra, _ := rp.TimeAnchor()
			verif.Assert(a.Equal(*ra), "C04/reify-kernel/reification-predicate-follows-the-fact")
		}
	}
	n0, _ := ts[1].Object().Node()
	verif.Assert(n0 == s, "C04/reify-kernel/subject-triple-points-to-the-subject")
	p1, _ := ts[2].Object().Predicate()
	verif.Assert(p1 == p, "C04/reify-kernel/predicate-triple-points-to-the-predicate")
	verif.Assert(ts[3].Object().String() == o.String(), "C04/reify-kernel/object-triple-points-to-the-object")
}

// C05 (d'): a triple whose object is a text literal of N symbolic 7-bit bytes
// (brackets, quotes, slashes and blanks included, i.e. text that looks like the
// separators triple.Parse searches for) prints to a line that parses back to
// the same triple.
func HarnessC05TripleText() {
	n := 1 + verif.Choice("len", verif.Param("N", 3))
	txt := verif.String("txt", n)
	for i := 0; i < n; i++ {
		verif.Assume(verif.And(txt[i] < 0x80, verif.And(txt[i] != '\n', txt[i] != '\r')))
	}
	s, err := node.NewNodeFromStrings("/u", "a")
	verif.Assume(err == nil)
	p, err := predicate.NewImmutable("p")
	verif.Assume(err == nil)
	l, err := literal.DefaultBuilder().Build(literal.Text, txt)
	verif.Assume(err == nil)
	t, err := triple.New(s, p, triple.NewLiteralObject(l))
	verif.Assume(err == nil)
	line := t.String()
	var t2 *triple.Triple
	var perr error
	if !noPanic("C05/triple-text/no-panic", func() { t2, perr = triple.Parse(line, literal.DefaultBuilder()) }) {
		return
	}
	verif.Reach("parsed")
	verif.Assert(perr == nil, "C05/triple-text/parses-back")
	if perr != nil || t2 == nil {
		return
	}
	l2, lerr := t2.Object().Literal()
	verif.Assert(lerr == nil, "C05/triple-text/object-is-a-literal")
	if lerr != nil {
		return
	}
	got, terr := l2.Text()
	verif.Assert(terr == nil && got == txt, "C05/triple-text/same-text")
	verif.Assert(t2.String() == line, "C05/triple-text/reprint")
}

// C05 (d'): objects whose text contains the delimiter of another kind of
// object: a predicate-valued object whose id contains `"^^type:` (with or
// without a known type name behind it) and a text literal that contains `"@[`
// print to text that ParseObject reads back as the same kind with the same
// components.
func HarnessC05ObjectDelimiter() {
	head := verif.String("head", verif.Choice("hl", 2))
	tail := verif.String("tail", verif.Choice("tl", verif.Param("T", 1)+1))
	for _, s := range []string{head, tail} {
		for i := 0; i < len(s); i++ {
			verif.Assume(s[i] < 0x80)
		}
	}
	var o *triple.Object
	if verif.Choice("kind", 2) == 0 {
		id := head + "\"^^type:" + []string{"", "text", "int64", "bool"}[verif.Choice("type", 4)] + tail
		verif.Assume(noSpace(id))
		verif.Assume(!earlyAnchor(id)) // the recorded C05 finding (needs three more bytes than the holes have)
		o = triple.NewPredicateObject(symPredicateFromID(id, 2*verif.Choice("pk", 2)))
	} else {
		txt := head + "\"@[" + []string{"", "]", "2006-01-02T15:04:05Z]"}[verif.Choice("anchor", 3)] + tail
		verif.Assume(verif.And(noByte(txt, '\n'), noByte(txt, '\r')))
		verif.Assume(!earlyTypeDelimiter(txt)) // not reachable at these lengths; the recorded C05 finding
		o = triple.NewLiteralObject(symLiteralText(txt))
	}
	txt := o.String()
	var o2 *triple.Object
	var err error
	if !noPanic("C05/object/no-panic", func() { o2, err = triple.ParseObject(txt, literal.DefaultBuilder()) }) {
		return
	}
	verif.Reach("parsed")
	verif.Assert(err == nil && o2 != nil, "C05/object/parses-back")
	if err != nil || o2 == nil {
		return
	}
	verif.Assert(sameObject(o, o2), "C05/object/equal")
	verif.Assert(o2.String() == txt, "C05/object/reprint")
}
