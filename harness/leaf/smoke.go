package zzleaf

import (
	"strings"

	verif "github.com/google/badwolf/internal/zzverif"
	"github.com/google/badwolf/triple/node"
)

func HarnessSmoke() {
	b := verif.Byte("b")
	if b == 'x' {
		verif.Reach("x")
	} else {
		verif.Reach("notx")
	}
	s := verif.String("s", 2)
	verif.Assert(!(s == "ab"), "smoke/not-ab")
	verif.Assert(strings.Index(s, "q") != 0 || s[0] == 'q', "smoke/index")
}

func HarnessNodeParse() {
	n := verif.Choice("len", 4)
	s := verif.String("s", n)
	nd, err := node.Parse(s)
	verif.Reach("returned")
	verif.Assert((nd == nil) != (err == nil), "nodeparse/value-xor-error")
}
