// Package zzleaf holds the gosym harnesses for the leaf packages (triple,
// node, predicate, literal, lexer).  Every Harness* function is an entry point
// for the symbolic executor and, compiled natively, its own replay test.
package zzleaf

import (
	verif "github.com/google/badwolf/internal/zzverif"
)

// noPanic runs f and turns a panic into a failed obligation.
func noPanic(obligation string, f func()) (ok bool) {
	defer func() {
		if r := recover(); r != nil {
			verif.Fail(obligation)
			ok = false
		}
	}()
	f()
	return true
}

func contains(s, sub string) bool {
	for i := 0; i+len(sub) <= len(s); i++ {
		if s[i:i+len(sub)] == sub {
			return true
		}
	}
	return false
}

func hasSpace(s string) bool {
	for i := 0; i < len(s); i++ {
		switch s[i] {
		case ' ', '\t', '\n', '\r', '\v', '\f', 0x85, 0xA0:
			return true
		}
	}
	return false
}
